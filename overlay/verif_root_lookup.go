//go:build verif

package mimetype

import "reflect"

// Variant used when the package has no top-level variable named root any more
// (it moved into some other structure): the live root node is what Lookup
// returns for the root type.
func verifRootValue() reflect.Value {
	m := Lookup("application/octet-stream")
	return reflect.ValueOf(&m).Elem()
}
