//go:build verif

package mimetype

// This file exists only in the scratch copy the verification checks build; it
// is never part of /repo. It lets many simulated runs share one process by
// putting the detector tree back to what it was at process start.

// VerifTree is a snapshot of every node's children slice.
type VerifTree struct {
	nodes []*MIME
	kids  [][]*MIME
}

// VerifSnapshotTree records the current shape of the tree.
func VerifSnapshotTree() *VerifTree {
	s := &VerifTree{}
	var walk func(m *MIME)
	walk = func(m *MIME) {
		s.nodes = append(s.nodes, m)
		s.kids = append(s.kids, append([]*MIME(nil), m.children...))
		for _, c := range m.children {
			walk(c)
		}
	}
	walk(root)
	return s
}

// Restore puts every recorded node's children back; nodes added later become unreachable.
func (s *VerifTree) Restore() {
	for i, n := range s.nodes {
		n.children = append([]*MIME(nil), s.kids[i]...)
	}
}

// Len is the number of nodes recorded.
func (s *VerifTree) Len() int { return len(s.nodes) }
