//go:build verif

package mimetype

import (
	"reflect"
	"unsafe"
)

// This file exists only in the scratch copy the verification checks build; it
// is never part of /repo. It lets many simulated runs share one process by
// putting the detector tree back to what it was at process start.
//
// It relies on two identifiers only: the package variable `root` and the type
// `MIME`. Everything reachable from root is found by reflection (through
// unexported fields, slices, maps, interfaces and anything with a Load()
// method, i.e. atomic.Pointer / atomic.Value holders), every MIME node found is
// saved by value, and Restore writes the saved values back. A refactoring that
// moves the children into an atomic pointer, or swaps an immutable tree behind
// an atomic root, is therefore still restored correctly.

// VerifTree is a snapshot of every reachable node and of the root variable.
type VerifTree struct {
	nodes []*MIME
	saved []MIME
	root  reflect.Value // copy of the root variable's value
	// backs: for every slice-of-pointers field of every node, the original backing
	// array over its whole capacity (dst) and a copy of what it held (keep). Restore
	// writes the contents back and leaves the slice headers as they were at process
	// start, so that capacities and shared backing arrays - which code built on
	// append may depend on - are exactly those of a fresh process.
	backs []verifBacking
}

type verifBacking struct{ dst, keep reflect.Value }

var mimeType = reflect.TypeOf(MIME{})

func verifVisit(v reflect.Value, seen map[unsafe.Pointer]bool, s *VerifTree, depth int) {
	if depth > 64 || !v.IsValid() {
		return
	}
	switch v.Kind() {
	case reflect.Ptr:
		if v.IsNil() {
			return
		}
		p := unsafe.Pointer(v.Pointer())
		if seen[p] {
			return
		}
		seen[p] = true
		if v.Type().Elem() == mimeType {
			m := (*MIME)(p)
			s.nodes = append(s.nodes, m)
			s.saved = append(s.saved, *m)
			s.saveBackings(m)
		}
		verifVisit(v.Elem(), seen, s, depth+1)
	case reflect.Struct:
		if v.CanAddr() {
			// holders of atomically published values: follow what Load() returns
			a := reflect.NewAt(v.Type(), unsafe.Pointer(v.UnsafeAddr()))
			if m := a.MethodByName("Load"); m.IsValid() && m.Type().NumIn() == 0 && m.Type().NumOut() == 1 {
				out := m.Call(nil)[0]
				verifVisit(out, seen, s, depth+1)
			}
		}
		for i := 0; i < v.NumField(); i++ {
			f := v.Field(i)
			if f.CanAddr() {
				f = reflect.NewAt(f.Type(), unsafe.Pointer(f.UnsafeAddr())).Elem()
			}
			verifVisit(f, seen, s, depth+1)
		}
	case reflect.Slice, reflect.Array:
		k := v.Type().Elem().Kind()
		if k != reflect.Ptr && k != reflect.Struct && k != reflect.Interface && k != reflect.Slice && k != reflect.Map {
			return
		}
		for i := 0; i < v.Len(); i++ {
			verifVisit(v.Index(i), seen, s, depth+1)
		}
	case reflect.Interface:
		if !v.IsNil() {
			verifVisit(v.Elem(), seen, s, depth+1)
		}
	case reflect.Map:
		it := v.MapRange()
		for it.Next() {
			verifVisit(it.Value(), seen, s, depth+1)
		}
	}
}

// saveBackings records the full-capacity contents of every slice-of-pointers field of *m.
func (s *VerifTree) saveBackings(m *MIME) {
	nv := reflect.ValueOf(m).Elem()
	for f := 0; f < nv.NumField(); f++ {
		fv := nv.Field(f)
		if fv.Kind() == reflect.Slice && !fv.IsNil() && fv.Type().Elem().Kind() == reflect.Ptr && fv.Cap() > 0 {
			fv = reflect.NewAt(fv.Type(), unsafe.Pointer(fv.UnsafeAddr())).Elem()
			full := fv.Slice3(0, fv.Cap(), fv.Cap())
			keep := reflect.MakeSlice(fv.Type(), full.Len(), full.Len())
			reflect.Copy(keep, full)
			s.backs = append(s.backs, verifBacking{dst: full, keep: keep})
		}
	}
}

// VerifSnapshotTree records the current shape of the tree.
func VerifSnapshotTree() *VerifTree {
	s := &VerifTree{}
	rv := verifRootValue()
	s.root = reflect.New(rv.Type()).Elem()
	s.root.Set(rv)
	verifVisit(rv, map[unsafe.Pointer]bool{}, s, 0)
	return s
}

// Restore puts the root variable and every recorded node back; nodes added
// later become unreachable. The slice headers of the saved values are the
// original ones; what their backing arrays held (over the whole capacity) is
// written back first, which undoes in-place changes.
func (s *VerifTree) Restore() {
	if rv := verifRootValue(); rv.CanSet() {
		rv.Set(s.root)
	}
	for _, b := range s.backs {
		reflect.Copy(b.dst, b.keep)
	}
	for i, n := range s.nodes {
		*n = s.saved[i]
	}
}

// Len is the number of nodes recorded.
func (s *VerifTree) Len() int { return len(s.nodes) }
