//go:build verif

package mimetype

import "reflect"

// Variant used when the package still has a top-level variable named root.
func verifRootValue() reflect.Value { return reflect.ValueOf(&root).Elem() }
