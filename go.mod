module verif

go 1.23
