package main

import (
	"bytes"
	"encoding/json"
)

// Stats mirrors work.Stats of the simulator.
type Stats struct {
	Runs         int            `json:"runs"`
	Ops          int            `json:"ops"`
	Steps        int            `json:"steps"`
	Switches     int            `json:"switches"`
	Probes       map[string]int `json:"probes"`
	Faults       map[string]int `json:"fault_counts"`
	Samples      []any          `json:"samples"`
	Inconclusive int            `json:"inconclusive"`
	WithFaults   int            `json:"runs_with_faults"`
	FaultFree    int            `json:"runs_fault_free"`
}

// Decisions mirrors core.Decisions.
type Decisions struct {
	Sched []int `json:"sched"`
	Pool  []int `json:"pool"`
}

// Failure mirrors work.Failure.
type Failure struct {
	Class string `json:"class"`
	Msg   string `json:"message"`
}

// Replay mirrors the simulator's replay file; the plan stays generic JSON.
type Replay struct {
	Property  string         `json:"property"`
	Seed      uint64         `json:"seed"`
	Subseed   string         `json:"subseed"`
	Class     string         `json:"class"`
	Message   string         `json:"message"`
	Race      bool           `json:"race_build"`
	Plan      map[string]any `json:"plan"`
	Decisions Decisions      `json:"decisions"`
	LogHash   string         `json:"log_hash"`
	Failures  []Failure      `json:"failures,omitempty"`
	Trace     []string       `json:"trace,omitempty"`
	// added by the driver
	Sites     []string `json:"race_sites,omitempty"`
	Minimised bool     `json:"minimised,omitempty"`
	Isolated  bool     `json:"process_per_run,omitempty"`
	Note      string   `json:"note,omitempty"`
}

// UnmarshalJSON keeps large integers exact.
func (r *Replay) UnmarshalJSON(b []byte) error {
	type alias Replay
	d := json.NewDecoder(bytes.NewReader(b))
	d.UseNumber()
	return d.Decode((*alias)(r))
}

// Report mirrors the worker's report.
type Report struct {
	Property   string   `json:"property"`
	Worker     int      `json:"worker"`
	Race       bool     `json:"race_build"`
	Stats      *Stats   `json:"stats"`
	Distinct   int      `json:"distinct"`
	DistinctKs []uint64 `json:"distinct_keys,omitempty"`
	SchedSigs  int      `json:"sched_sigs"`
	ConfSigs   int      `json:"conflict_sigs"`
	SchedKs    []uint64 `json:"sched_keys,omitempty"`
	ConfKs     []uint64 `json:"conflict_keys,omitempty"`
	Failures   []Replay `json:"failures"`
	Exhausted  bool     `json:"exhausted"`
	Tainted    bool     `json:"tainted"`
	NextIdx    int      `json:"next_idx"`
	WallS      float64  `json:"wall_s"`
	MemoMisses int      `json:"reference_evaluations"`
	Hashes     []string `json:"hashes,omitempty"`
	RaceCounts []int    `json:"race_counts,omitempty"`
	Harness    string   `json:"harness_fault,omitempty"`
	Rule       string   `json:"rule"`
}

func clone(v any) any {
	b, _ := json.Marshal(v)
	d := json.NewDecoder(bytes.NewReader(b))
	d.UseNumber()
	var out any
	d.Decode(&out)
	return out
}

func (r Replay) clone() Replay {
	c := r
	if r.Plan != nil {
		c.Plan = clone(r.Plan).(map[string]any)
	}
	c.Decisions.Sched = append([]int(nil), r.Decisions.Sched...)
	c.Decisions.Pool = append([]int(nil), r.Decisions.Pool...)
	c.Failures = append([]Failure(nil), r.Failures...)
	return c
}
