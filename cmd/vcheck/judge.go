package main

import (
	"bufio"
	"encoding/json"
	"fmt"
	"os"
	"os/exec"
	"path/filepath"
	"regexp"
	"sort"
	"strconv"
	"strings"
	"time"
)

// knownFinding is one line of /verif/known_findings.txt:
//
//	finding: property=C06 class=race match=<substring of the normalised message> -- free text
//	fixed: property=C06 <commit> <what failed>
//
// Only "finding:" lines suppress anything; "fixed:" lines are documentation.
type knownFinding struct {
	Property, Class, Match, Text string
}

func loadKnown(path string) []knownFinding {
	f, err := os.Open(path)
	if err != nil {
		return nil
	}
	defer f.Close()
	var out []knownFinding
	sc := bufio.NewScanner(f)
	for sc.Scan() {
		line := strings.TrimSpace(sc.Text())
		if !strings.HasPrefix(line, "finding:") {
			continue
		}
		line = strings.TrimSpace(strings.TrimPrefix(line, "finding:"))
		text := ""
		if i := strings.Index(line, " -- "); i >= 0 {
			text = line[i+4:]
			line = line[:i]
		}
		k := knownFinding{Text: text}
		for _, f := range strings.Fields(line) {
			switch {
			case strings.HasPrefix(f, "property="):
				k.Property = f[9:]
			case strings.HasPrefix(f, "class="):
				k.Class = f[6:]
			case strings.HasPrefix(f, "match="):
				k.Match = f[6:]
			}
		}
		if k.Property != "" && k.Class != "" && k.Match != "" {
			out = append(out, k)
		}
	}
	return out
}

func (k knownFinding) matches(prop string, r *Replay) bool {
	if k.Property != prop || k.Class != r.Class {
		return false
	}
	hay := r.Message + " " + strings.Join(r.Sites, " ")
	return strings.Contains(hay, k.Match)
}

// runReplay executes a replay file in a fresh worker process.
func runReplay(bin string, r *Replay, dir, realDir string, trace bool, raceLog string) (*Replay, int, error) {
	b, err := json.Marshal(r)
	if err != nil {
		return nil, 2, err
	}
	f, err := os.CreateTemp(dir, "cand-*.json")
	if err != nil {
		return nil, 2, err
	}
	f.Write(b)
	f.Close()
	defer os.Remove(f.Name())
	args := []string{"--replay", f.Name(), "--realdir", realDir}
	if trace {
		args = append(args, "--trace")
	}
	cmd := exec.Command(bin, args...)
	if raceLog == "" {
		raceLog = filepath.Join(dir, "racelog-discard")
	}
	gorace := goraceBase + " log_path=" + raceLog
	cmd.Env = append(os.Environ(), gorace, "VERIF_SAMPLES="+filepath.Join(repoDir, "testdata"), "VERIF_CORPUS="+corpusFile, "VERIF_CHANOPS="+chanFlag())
	var so, se strings.Builder
	cmd.Stdout, cmd.Stderr = &so, &se
	err = cmd.Run()
	code := 0
	if ee, ok := err.(*exec.ExitError); ok {
		code = ee.ExitCode()
	} else if err != nil {
		return nil, 2, err
	}
	if code != 0 {
		return nil, code, fmt.Errorf("replay worker exit %d: %s", code, tail(se.String(), 10))
	}
	var out Replay
	lines := strings.Split(strings.TrimSpace(so.String()), "\n")
	if err := json.Unmarshal([]byte(lines[len(lines)-1]), &out); err != nil {
		return nil, 2, fmt.Errorf("replay output: %v", err)
	}
	return &out, 0, nil
}

// confirmReplay runs a replay up to n times until the class shows up. Race
// reports can be missed by ThreadSanitizer (bounded shadow cells per word,
// evicted by an epoch-dependent rule) but are never invented, so retrying is
// sound; every other class reproduces on the first attempt or not at all.
func confirmReplay(bin string, r *Replay, class, dir, realDir string, trace bool, raceLog string, n int) (*Replay, error) {
	if class != "race" && n < 8 {
		n = 1
	}
	var lastErr error
	for i := 0; i < n; i++ {
		out, code, err := runReplay(bin, r, dir, realDir, trace, raceLog)
		if err != nil || code != 0 {
			lastErr = fmt.Errorf("replay did not execute (exit %d): %v", code, err)
			continue
		}
		if hasClass(out, class) {
			return out, nil
		}
		lastErr = fmt.Errorf("class %s not observed", class)
	}
	return nil, lastErr
}

func hasClass(r *Replay, class string) bool {
	for _, f := range r.Failures {
		if f.Class == class {
			return true
		}
	}
	return false
}

func pick(r *Replay, class string) {
	for _, f := range r.Failures {
		if f.Class == class {
			r.Class, r.Message = f.Class, f.Msg
			return
		}
	}
}

// minimise shrinks a failing replay while the same failure class persists.
// Every candidate runs in a fresh process.
func minimise(bin string, orig Replay, dir, realDir string, budget time.Duration, maxCand int) (Replay, int) {
	best := orig
	class := orig.Class
	deadline := time.Now().Add(budget)
	tried := 0
	try := func(c Replay) bool {
		if tried >= maxCand || time.Now().After(deadline) {
			return false
		}
		tried++
		out, code, err := runReplay(bin, &c, dir, realDir, false, "")
		if err != nil || code != 0 || out == nil || !hasClass(out, class) {
			return false
		}
		if class == "race" { // must hold up twice: keeps flaky reports out of the minimised file
			if o2, c2, e2 := runReplay(bin, &c, dir, realDir, false, ""); e2 != nil || c2 != 0 || o2 == nil || !hasClass(o2, class) {
				return false
			}
		}
		pick(out, class)
		out.Seed, out.Subseed, out.Race = orig.Seed, orig.Subseed, orig.Race
		best = *out
		return true
	}
	tasks := func(r *Replay) []any {
		t, _ := r.Plan["tasks"].([]any)
		return t
	}
	// 1. simplest schedule: no recorded decisions at all (run each task to completion, lifo pool)
	{
		c := best.clone()
		c.Decisions = Decisions{}
		try(c)
	}
	// 2. drop whole tasks
	for i := len(tasks(&best)) - 1; i >= 0 && len(tasks(&best)) > 1; i-- {
		c := best.clone()
		ts := tasks(&c)
		c.Plan["tasks"] = append(append([]any{}, ts[:i]...), ts[i+1:]...)
		var sched []int
		for _, id := range c.Decisions.Sched {
			switch {
			case id == i:
			case id > i:
				sched = append(sched, id-1)
			default:
				sched = append(sched, id)
			}
		}
		c.Decisions.Sched = sched
		if !try(c) {
			c2 := c.clone()
			c2.Decisions = Decisions{}
			try(c2)
		}
		if i > len(tasks(&best)) {
			i = len(tasks(&best))
		}
	}
	// 3. drop operations (chunks, then singles), per task, and preliminary extends
	dropOps := func(key string, ti int) {
		get := func(r *Replay) []any {
			if key == "pre" {
				p, _ := r.Plan["pre"].([]any)
				return p
			}
			ts := tasks(r)
			if ti >= len(ts) {
				return nil
			}
			o, _ := ts[ti].([]any)
			return o
		}
		set := func(r *Replay, ops []any) {
			if key == "pre" {
				r.Plan["pre"] = ops
				return
			}
			tasks(r)[ti] = ops
		}
		for size := len(get(&best)) / 2; size >= 1; size /= 2 {
			for at := 0; at+size <= len(get(&best)); {
				c := best.clone()
				ops := get(&c)
				set(&c, append(append([]any{}, ops[:at]...), ops[at+size:]...))
				ok := try(c)
				if !ok {
					c2 := c.clone()
					c2.Decisions = Decisions{}
					ok = try(c2)
				}
				if !ok {
					at += size
				}
				if tried >= maxCand {
					return
				}
			}
		}
	}
	for ti := range tasks(&best) {
		dropOps("tasks", ti)
	}
	dropOps("pre", 0)
	// 4. fewer context switches: try to extend each run of the same task
	for pass := 0; pass < 2; pass++ {
		s := best.Decisions.Sched
		for i := 1; i < len(s) && tried < maxCand; i++ {
			if s[i] != s[i-1] {
				c := best.clone()
				c.Decisions.Sched[i] = s[i-1]
				if try(c) {
					s = best.Decisions.Sched
				}
			}
		}
	}
	// 5. pool choices: prefer New (-1)
	for i := range best.Decisions.Pool {
		if best.Decisions.Pool[i] != -1 && tried < maxCand {
			c := best.clone()
			c.Decisions.Pool[i] = -1
			try(c)
		}
	}
	best.Minimised = true
	return best, tried
}

var raceFrame = regexp.MustCompile(`^\s+(\S+)\(.*\)$`)
var raceLoc = regexp.MustCompile(`^\s+(\S+\.go):(\d+)`)

// raceSites extracts, from ThreadSanitizer's log, the innermost frame of each
// access that lies in the library (not in the simulator or the runtime).
func raceSites(logPrefix, srcRoot string) []string {
	files, _ := filepath.Glob(logPrefix + ".*")
	seen := map[string]bool{}
	for _, f := range files {
		b, err := os.ReadFile(f)
		if err != nil {
			continue
		}
		lines := strings.Split(string(b), "\n")
		for i := 0; i < len(lines); i++ {
			l := lines[i]
			if !(strings.HasPrefix(l, "Write at") || strings.HasPrefix(l, "Read at") || strings.HasPrefix(l, "Previous write at") || strings.HasPrefix(l, "Previous read at")) {
				continue
			}
			kind := strings.ToLower(strings.Fields(strings.TrimPrefix(l, "Previous "))[0])
			for j := i + 1; j+1 < len(lines) && strings.TrimSpace(lines[j]) != ""; j += 2 {
				fm := raceFrame.FindStringSubmatch(lines[j])
				lm := raceLoc.FindStringSubmatch(lines[j+1])
				if fm == nil || lm == nil {
					continue
				}
				file := lm[1]
				if !strings.HasPrefix(file, srcRoot) || strings.Contains(file, "/internal/verifsim/") {
					continue
				}
				rel := strings.TrimPrefix(strings.TrimPrefix(file, srcRoot), "/")
				fn := fm[1]
				if k := strings.LastIndex(fn, "/"); k >= 0 {
					fn = fn[k+1:]
				}
				seen[fmt.Sprintf("%s %s:%s %s", kind, rel, lm[2], fn)] = true
				break
			}
		}
	}
	var out []string
	for s := range seen {
		out = append(out, s)
	}
	sort.Strings(out)
	return out
}

func firstLine(s string, n int) string {
	if i := strings.IndexByte(s, '\n'); i >= 0 {
		s = s[:i]
	}
	if len(s) > n {
		s = s[:n]
	}
	return s
}

var leakedRuns int

// judge minimises, confirms and classifies the failing runs. It returns the
// replay paths of confirmed, unlisted violations and the number of known findings hit.
func judge(prop string, seed uint64, failures []Replay, info *prepInfo, bins map[bool]string, realDir string, known []knownFinding) ([]string, int) {
	if len(failures) == 0 {
		// known findings that did not show up are still listed, so that the output says what is suppressed
		return nil, 0
	}
	// one representative per (class, race build), smallest plan first
	sort.SliceStable(failures, func(i, j int) bool {
		return len(failures[i].Decisions.Sched) < len(failures[j].Decisions.Sched)
	})
	seenClass := map[string]int{}
	leaked := 0
	defer func() {
		if leaked > 0 {
			fmt.Printf("NOTE: %d failing run(s) of multi-run workers did not reproduce in a process of their own: the library keeps state outside the detector tree across calls; only the process-per-run phase is a verdict for such state\n", leaked)
		}
		leakedRuns = leaked
	}()
	var violations []string
	var unexplained []string
	defer func() {
		if len(unexplained) > 0 && len(violations) == 0 {
			fatal2("%s: harness nondeterminism", strings.Join(unexplained, "; "))
		}
		for _, u := range unexplained {
			fmt.Printf("NOTE: %s\n", u)
		}
	}()
	knownHits := 0
	printedKnown := map[string]bool{}
	dir := filepath.Join(scratch, "cand")
	os.MkdirAll(dir, 0o755)
	for _, f := range failures {
		key := f.Class
		if seenClass[key] >= 2 || len(violations) >= 3 {
			continue
		}
		seenClass[key]++
		bin := bins[f.Race]
		if bin == "" {
			b, err := buildSim(info, f.Race)
			if err != nil {
				fatal2("build: %v", err)
			}
			bins[f.Race], bin = b, b
		}
		// confirm in a fresh process first
		isErratic := false
		first, err := confirmReplay(bin, &f, f.Class, dir, realDir, false, "", 4)
		if err != nil {
			if f.Isolated {
				// The run had a process to itself and failed; the same plan and decisions pass
				// now. Either the harness is nondeterministic, or the library is (an answer
				// that depends on map iteration order, on an address, on the time). Replay it
				// a number of times: if the failure comes back at all, it is the library's.
				var err2 error
				if first, err2 = confirmReplay(bin, &f, f.Class, dir, realDir, false, "", 24); err2 != nil {
					// neither the library's nor anybody's: remembered, and fatal only if nothing else explains the run
					unexplained = append(unexplained, fmt.Sprintf("failing run %s (class %s) was executed in a process of its own and did not reproduce in 28 replays (%v)", f.Subseed, f.Class, err))
					seenClass[key]--
					continue
				}
				isErratic = true
			} else {
				// The run failed inside a worker that had executed other runs before it and
				// passes on its own: the library keeps state outside the detector tree that the
				// in-process restore between runs does not know about. Such a failure may be
				// an artefact of that restore, so it is not a verdict; the process-per-run
				// phase (no shared state by construction) decides.
				leaked++
				seenClass[key]--
				fmt.Printf("NOTE: set aside (did not reproduce alone): subseed %s class %s: %s\n", f.Subseed, f.Class, firstLine(f.Message, 300))
				if d := os.Getenv("VERIF_KEEP_SETASIDE"); d != "" {
					if b, err := json.MarshalIndent(f, "", " "); err == nil {
						os.WriteFile(filepath.Join(d, fmt.Sprintf("setaside-%s-%s.json", prop, f.Subseed)), b, 0o644)
					}
				}
				continue
			}
		}
		min, tried := f, 0
		attempts := 4
		if isErratic {
			// the same plan gives different answers from one execution to the next: no minimising, many replays
			attempts = 24
		} else {
			min, tried = minimise(bin, f, dir, realDir, 90*time.Second, 220)
		}
		// final confirmation, with trace (and race log when applicable); fall
		// back to the confirmed original when the minimised file does not hold up
		logPrefix := ""
		if f.Race {
			logPrefix = filepath.Join(dir, "racelog-"+f.Subseed)
		}
		final, err := confirmReplay(bin, &min, f.Class, dir, realDir, true, logPrefix, attempts)
		if err != nil {
			// The original failed in its worker and again in a fresh process (`first`). If it
			// does not come back now, the library's answer for this plan varies from one
			// execution to the next; what was seen twice stands, with or without a trace.
			min, tried = f, 0
			if final, err = confirmReplay(bin, &min, f.Class, dir, realDir, true, logPrefix, attempts+2); err != nil {
				isErratic = true
				if final, err = confirmReplay(bin, &min, f.Class, dir, realDir, true, logPrefix, 24); err != nil {
					final = first
				}
			}
		}
		pick(final, f.Class)
		final.Seed, final.Subseed, final.Race, final.Minimised = f.Seed, f.Subseed, f.Race, true
		final.Note = fmt.Sprintf("minimised with %d candidate replays, each in a fresh process; original run had %d scheduler steps", tried, len(f.Decisions.Sched))
		if isErratic {
			final.Note = "the library's answer for this plan differs from one execution to the next (the failure reproduced in some of up to 24 replays, not in all): not minimised; replay it repeatedly"
		}
		if logPrefix != "" {
			final.Sites = raceSites(logPrefix, info.Dir)
			if final.Class == "race" && len(final.Sites) > 0 {
				final.Message = "data race: " + strings.Join(final.Sites, " <-> ")
			}
		}
		isKnown := false
		for _, k := range known {
			if k.matches(prop, final) {
				isKnown = true
				knownHits++
				line := fmt.Sprintf("KNOWN-FINDING: property=%s class=%s %s -- %s", prop, k.Class, k.Match, k.Text)
				if !printedKnown[line] {
					printedKnown[line] = true
					fmt.Println(line)
				}
			}
		}
		if isKnown {
			continue
		}
		path := filepath.Join(envOr("VERIF_REPLAY_DIR", filepath.Join(verifDir, "replays")), fmt.Sprintf("%s-seed%d-%s-%s.json", prop, seed, final.Class, f.Subseed))
		os.MkdirAll(filepath.Dir(path), 0o755)
		if n := len(final.Trace); n > 6000 {
			// the trace is an illustration (`--replay` prints all of it again); the decisions are what replays
			final.Trace = append(append(append([]string(nil), final.Trace[:1000]...), fmt.Sprintf("... %d trace lines left out ...", n-6000)), final.Trace[n-5000:]...)
		}
		b, _ := json.MarshalIndent(final, "", " ")
		os.WriteFile(path, append(b, '\n'), 0o644)
		fmt.Printf("violation: property=%s class=%s: %s\n", prop, final.Class, oneLine(final.Message, 600))
		dup := false
		for _, v := range violations {
			dup = dup || v == path
		}
		if !dup {
			violations = append(violations, path)
		}
	}
	return violations, knownHits
}

func oneLine(s string, n int) string {
	s = strings.Join(strings.Fields(s), " ")
	if len(s) > n {
		s = s[:n] + "..."
	}
	return s
}

// replayMain re-executes a replay file against the current working tree.
func replayMain(prop, path string, info *prepInfo, realDir string) int {
	b, err := os.ReadFile(path)
	if err != nil {
		fatal2("read replay: %v", err)
	}
	var r Replay
	if err := json.Unmarshal(b, &r); err != nil {
		fatal2("parse replay: %v", err)
	}
	if r.Property != prop {
		fatal2("replay file is for property %s", r.Property)
	}
	bin, err := buildSim(info, r.Race)
	if err != nil {
		fatal2("build: %v", err)
	}
	dir := filepath.Join(scratch, "cand")
	os.MkdirAll(dir, 0o755)
	logPrefix := ""
	if r.Race {
		logPrefix = filepath.Join(dir, "racelog")
	}
	out, code, err := runReplay(bin, &r, dir, realDir, true, logPrefix)
	if err != nil || code != 0 {
		fatal2("replay: %v", err)
	}
	for _, l := range out.Trace {
		fmt.Println("  " + l)
	}
	same := out.LogHash == r.LogHash
	fmt.Printf("replayed %s: log hash %s (recorded %s, identical=%v), %d failure(s)\n", filepath.Base(path), out.LogHash, r.LogHash, same, len(out.Failures))
	for _, f := range out.Failures {
		fmt.Printf("  %s: %s\n", f.Class, oneLine(f.Msg, 800))
	}
	if logPrefix != "" {
		for _, s := range raceSites(logPrefix, info.Dir) {
			fmt.Println("  race site:", s)
		}
	}
	if hasClass(out, r.Class) {
		fmt.Printf("VIOLATION property=%s replay=%s\n", prop, path)
		return 1
	}
	fmt.Println("not reproduced on the current tree")
	return 0
}

// determinismSelftest runs the same sub-seeds in separate processes under
// different GOMAXPROCS and compares event-log and result hashes.
func determinismSelftest(prop, tier string, seed uint64, bins map[bool]string, realDir string) (map[string]any, error) {
	res := map[string]any{}
	total := 0
	for race, bin := range bins {
		n := 32
		var ref []string
		for i, gmp := range []int{1, 16, 4} {
			rd := filepath.Join(realDir, fmt.Sprintf("selftest-%v-%d", race, i))
			os.MkdirAll(rd, 0o755)
			o := runWorker(bin, gmp, "", "--prop", prop, "--tier", tier, "--seed", strconv.FormatUint(seed, 10), "--worker", "0", "--workers", "1",
				"--runs", strconv.Itoa(n), "--emit-hashes", "--realdir", rd, "--maxfail", "1000000")
			if o.rep == nil || o.code != 0 {
				return nil, fmt.Errorf("self-test worker failed (race=%v GOMAXPROCS=%d): exit %d %s", race, gmp, o.code, tail(o.stderr, 10))
			}
			if ref == nil {
				ref = o.rep.Hashes
				continue
			}
			if strings.Join(ref, ",") != strings.Join(o.rep.Hashes, ",") {
				for j := range ref {
					if j >= len(o.rep.Hashes) || ref[j] != o.rep.Hashes[j] {
						return nil, fmt.Errorf("run %d diverged between processes (race=%v): %s vs %s", j, race, ref[j], o.rep.Hashes[min(j, len(o.rep.Hashes)-1)])
					}
				}
				return nil, fmt.Errorf("hash lists differ in length (race=%v)", race)
			}
		}
		total += len(ref)
		res[fmt.Sprintf("race_build_%v", race)] = fmt.Sprintf("%d sub-seeds x 3 processes (GOMAXPROCS 1, 16, 4): identical event-log hashes, result hashes and verdicts", len(ref))
	}
	res["subseeds_compared"] = total
	return res, nil
}

// selftestMain is the large determinism self-test: for every claimed property
// and both builds, the same sub-seeds are executed in many separate processes
// under GOMAXPROCS 1, 4 and 16 (several processes per setting, all running at
// once so that they also compete for cores) and every per-run event-log hash,
// result hash and non-race verdict must agree.
func selftestMain(seed uint64, subseeds int) int {
	var err error
	scratch, err = os.MkdirTemp("", "verif-selftest-")
	if err != nil {
		fatal2("mktemp: %v", err)
	}
	defer cleanup()
	info, err := prepare(repoDir, verifDir, filepath.Join(scratch, "src"), false)
	if err != nil {
		fatal2("prepare: %v", err)
	}
	bins := map[bool]string{}
	for _, race := range []bool{false, true} {
		if bins[race], err = buildSim(info, race); err != nil {
			fatal2("build: %v", err)
		}
	}
	type job struct {
		prop string
		race bool
		gmp  int
		rep  int
		out  runOut
	}
	props := []string{"C04", "C05", "C06", "C14"}
	bad := 0
	for _, prop := range props {
		for _, race := range []bool{false, true} {
			n := subseeds
			if race {
				n = subseeds / 2
			}
			if prop == "C04" {
				n = n / 2
			}
			var jobs []*job
			for _, gmp := range []int{1, 4, 16} {
				for rep := 0; rep < 5; rep++ {
					jobs = append(jobs, &job{prop: prop, race: race, gmp: gmp, rep: rep})
				}
			}
			sem := make(chan struct{}, 15)
			done := make(chan struct{})
			for _, j := range jobs {
				go func(j *job) {
					sem <- struct{}{}
					rd := filepath.Join(scratch, "real", fmt.Sprintf("%s-%v-%d-%d", j.prop, j.race, j.gmp, j.rep))
					os.MkdirAll(rd, 0o755)
					j.out = runWorker(bins[j.race], j.gmp, filepath.Join(scratch, "racelog"), "--prop", j.prop, "--tier", "quick", "--seed", strconv.FormatUint(seed, 10),
						"--worker", "0", "--workers", "1", "--runs", strconv.Itoa(n), "--emit-hashes", "--realdir", rd, "--maxfail", "1000000")
					<-sem
					done <- struct{}{}
				}(j)
			}
			for range jobs {
				<-done
			}
			ref := jobs[0].out
			if ref.rep == nil || ref.code != 0 {
				fatal2("self-test worker failed: %s", tail(ref.stderr, 10))
			}
			diverged := 0
			for _, j := range jobs[1:] {
				if j.out.rep == nil || j.out.code != 0 {
					fatal2("self-test worker failed: %s", tail(j.out.stderr, 10))
				}
				if strings.Join(j.out.rep.Hashes, ",") != strings.Join(ref.rep.Hashes, ",") {
					diverged++
					fmt.Printf("DIVERGED %s race=%v GOMAXPROCS=%d rep=%d\n", prop, race, j.gmp, j.rep)
				}
			}
			bad += diverged
			fmt.Printf("selftest %s race_build=%v: %d sub-seeds x %d processes (GOMAXPROCS 1/4/16 x 5, concurrently): %d diverged\n", prop, race, len(ref.rep.Hashes), len(jobs), diverged)
		}
	}
	if bad > 0 {
		fmt.Println("CANNOT-DECIDE: the simulator is not deterministic")
		return 2
	}
	return 0
}
