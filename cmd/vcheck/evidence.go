package main

import (
	"encoding/json"
	"os"
	"path/filepath"
)

type evidence struct {
	PropertyID  string         `json:"property_id"`
	Tier        string         `json:"tier"`
	Seed        uint64         `json:"seed"`
	Level       string         `json:"level"`
	Coverage    map[string]any `json:"coverage"`
	Assumptions []string       `json:"assumptions"`
	WallS       float64        `json:"wall_s"`
	Violations  int            `json:"violations"`

	distinct     map[uint64]struct{}
	sched        map[uint64]struct{}
	conf         map[uint64]struct{}
	probes       map[string]int
	faults       map[string]int
	phases       []map[string]any
	runs         int
	ops          int
	steps        int
	switches     int
	inconclusive int
	refEvals     int
	samples      []any
	simWall      float64
}

var rules = map[string]string{}

func newEvidence(prop, tier string, seed uint64, info *prepInfo) *evidence {
	e := &evidence{PropertyID: prop, Tier: tier, Seed: seed, Level: levels[prop], Coverage: map[string]any{},
		distinct: map[uint64]struct{}{}, sched: map[uint64]struct{}{}, conf: map[uint64]struct{}{},
		probes: map[string]int{}, faults: map[string]int{}}
	e.Coverage["repo_head"] = info.RepoHead
	e.Coverage["repo_dirty"] = info.RepoDirty
	e.Coverage["toolchain"] = info.GoVersion
	e.Coverage["interposed_files"] = info.Rewritten
	e.Coverage["unmodelled_constructs"] = info.Warnings
	e.Coverage["components"] = map[string]string{
		"mimetype, internal/magic, internal/json, internal/charset, golang.org/x/net/html, encoding/csv, encoding/xml, mime": "real code (four import paths redirected on a scratch copy)",
		"sync.RWMutex, sync.Mutex, sync/atomic": "real primitive, gated by the simulator's lock model / preceded by a scheduling point",
		"sync.Pool":                             "stub: nondeterministic-choice model (Get returns New() or any released object, by recorded choice)",
		"os.Open / *os.File":                    "stub for sim:/ paths (fault-injecting delivery engine); real kernel for the temp-file subset",
		"io.Reader":                             "harness implementation of the public interface (delivery schedule + injected fault)",
		"goroutine scheduler":                   "replaced by the seeded baton scheduler (one task runs between two decisions)",
		"race detector":                         "real ThreadSanitizer runtime; baton hand-offs hidden with runtime.RaceDisable/Enable",
		"time.Now / Since / Until / Sleep":      "stub: simulated wall clock that moves only when a plan says so (forwards and backwards); the library itself reads no clock, a change that does is subject to it",
		"timers, network, durable storage":      "absent from the library; not simulated",
	}
	e.Assumptions = []string{
		"seeded search samples schedules, histories and delivery schedules; a clean batch is evidence, not proof",
		"scheduling points exist at synchronisation, pool, I/O and callback seams only; interleavings between two plain memory accesses are judged by happens-before (race detector), not executed",
		"the sync.Pool model allows a superset of the real pool's behaviours and never hands one object to two holders",
		"built-in behaviour enters the oracles only as the answer of the same build on the pristine tree (fresh pool, no history)",
		"linux/amd64, Go toolchain as recorded under coverage.toolchain; 32-bit int behaviour is not executed",
	}
	return e
}

func (e *evidence) addPhase(ph phase, outs []runOut, wall float64) {
	runs, ops, steps, exhausted := 0, 0, 0, true
	lastOf := map[int]*Report{} // a worker may have had successors; its last report says whether its share was completed
	for _, o := range outs {
		lastOf[o.worker] = o.rep
	}
	for _, r := range lastOf {
		exhausted = exhausted && r.Exhausted
	}
	for _, o := range outs {
		r := o.rep
		runs += r.Stats.Runs
		ops += r.Stats.Ops
		steps += r.Stats.Steps
		e.switches += r.Stats.Switches
		e.inconclusive += r.Stats.Inconclusive
		e.refEvals += r.MemoMisses
		if r.Rule != "" {
			rules[e.PropertyID] = r.Rule
		}
		for k, v := range r.Stats.Probes {
			e.probes[k] += v
		}
		for k, v := range r.Stats.Faults {
			e.faults[k] += v
		}
		for _, k := range r.DistinctKs {
			e.distinct[k] = struct{}{}
		}
		for _, k := range r.SchedKs {
			e.sched[k] = struct{}{}
		}
		for _, k := range r.ConfKs {
			e.conf[k] = struct{}{}
		}
		for _, s := range r.Stats.Samples {
			if len(e.samples) < 8 {
				e.samples = append(e.samples, s)
			}
		}
	}
	e.runs += runs
	e.ops += ops
	e.steps += steps
	e.simWall += wall
	p := map[string]any{"name": ph.Name, "race_build": ph.Race, "workers": ph.Workers, "runs": runs, "operations": ops,
		"scheduler_steps": steps, "wall_s": wall}
	if ph.Runs == 0 {
		p["enumeration_completed"] = exhausted
	}
	if wall > 0 {
		p["runs_per_hour"] = int(float64(runs) / wall * 3600)
	}
	e.phases = append(e.phases, p)
}

func (e *evidence) write(path string) error {
	c := e.Coverage
	c["evaluations"] = e.runs
	c["operations"] = e.ops
	c["distinct_nontrivial"] = len(e.distinct)
	c["rule"] = rules[e.PropertyID]
	c["samples"] = e.samples
	c["phases"] = e.phases
	c["scheduler_steps"] = e.steps
	c["simulated_time"] = map[string]any{"unit": "logical steps (scheduler decisions and I/O events); the library has no clock", "steps": e.steps}
	c["context_switches"] = e.switches
	c["inconclusive_runs"] = e.inconclusive
	c["distinct_schedule_signatures"] = len(e.sched)
	c["distinct_conflict_signatures"] = len(e.conf)
	c["probes"] = e.probes
	c["fault_counts"] = e.faults
	c["reference_evaluations"] = e.refEvals
	if e.simWall > 0 {
		c["runs_per_hour"] = int(float64(e.runs) / e.simWall * 3600)
	}
	if e.PropertyID == "C05" {
		done := true
		for _, p := range e.phases {
			if v, ok := p["enumeration_completed"]; ok && v != true {
				done = false
			}
		}
		c["exhaustive"] = false
		c["exhaustive_note"] = "fault offsets are enumerated completely per (input, limit) pair in the thorough tier; delivery schedules and the input grid are sampled, so the space as a whole is not exhaustive"
		c["enumeration_completed"] = done
	}
	if len(e.samples) == 0 {
		c["samples"] = []any{"no sample recorded"}
	}
	b, err := json.MarshalIndent(e, "", " ")
	if err != nil {
		return err
	}
	if err := os.MkdirAll(filepath.Dir(path), 0o755); err != nil {
		return err
	}
	return os.WriteFile(path, append(b, '\n'), 0o644)
}
