// Command vcheck is the driver of the deterministic-simulation checks.
//
//	vcheck <property> [--tier quick|thorough] [--replay file] [--workers n]
//
// It copies /repo's working tree into a scratch directory, redirects the
// imports of sync, sync/atomic and os to the simulator's shims, builds the
// simulation worker there, fans out seeded runs over worker processes,
// minimises and re-confirms any failure in fresh processes, writes
// /verif/evidence/<property>.json and removes the scratch directory.
//
// Exit status: 0 the property held on everything explored (known findings are
// listed as KNOWN-FINDING lines); 1 a violation was found and confirmed (a
// VIOLATION line names the replay file); 2 the check could not decide (build
// trouble, watchdog, nondeterminism in the harness).
package main

import (
	"encoding/json"
	"flag"
	"fmt"
	"os"
	"os/exec"
	"path/filepath"
	"runtime"
	"sort"
	"strconv"
	"strings"
	"sync"
	"time"
)

var (
	repoDir  = envOr("VERIF_REPO", "/repo")
	verifDir = envOr("VERIF_DIR", "/verif")
)

func envOr(k, d string) string {
	if v := os.Getenv(k); v != "" {
		return v
	}
	return d
}

func fatal2(format string, a ...any) {
	fmt.Fprintf(os.Stderr, "HARNESS: "+format+"\n", a...)
	fmt.Printf("CANNOT-DECIDE: "+format+"\n", a...)
	cleanup()
	os.Exit(2)
}

// goraceBase: never de-duplicate reports (re-running the same race during
// minimisation must count again), keep the worker's own exit status.
const goraceBase = "GORACE=suppress_equal_stacks=0 suppress_equal_addresses=0 history_size=5 exitcode=0"

var scratch string
var corpusFile string
var keepScratch bool

func cleanup() {
	if scratch != "" && !keepScratch {
		os.RemoveAll(scratch)
	}
}

// phase is one batch of worker processes.
type phase struct {
	Name    string
	Race    bool
	Workers int
	Runs    int     // per worker; 0 = until the enumeration share is exhausted
	BudgetS float64 // per worker wall-clock cap for starting new runs
	Isolate bool    // every run in a process of its own (no state of the library survives from run to run)
}

func phasesFor(prop, tier string, workers int) []phase {
	q := tier == "quick"
	switch prop {
	case "C05":
		if q {
			return []phase{{"enumeration", false, workers, 0, 240, false}, {"enumeration-process-per-run", false, workers, 12, 15, true}}
		}
		return []phase{{"enumeration", false, workers, 0, 3000, false}, {"enumeration-race-sample", true, workers, 40, 600, false},
			{"enumeration-process-per-run", false, workers, 1500, 300, true}}
	case "C04":
		if q {
			return []phase{{"history-search", false, workers, 250, 60, false}, {"history-search-race", true, workers, 70, 60, false},
				{"history-search-process-per-run", false, workers, 40, 40, true}}
		}
		return []phase{{"history-search", false, workers, 125000, 600, false}, {"history-search-race", true, workers, 20000, 600, false},
			{"history-search-process-per-run", false, workers, 2500, 200, true}}
	case "C06":
		if q {
			return []phase{{"schedule-search-race", true, workers, 500, 70, false}, {"schedule-search", false, workers, 600, 40, false},
				{"schedule-search-process-per-run", false, workers, 100, 40, true}}
		}
		return []phase{{"schedule-search-race", true, workers, 100000, 900, false}, {"schedule-search", false, workers, 100000, 300, false},
			{"schedule-search-process-per-run", false, workers, 5000, 200, true}}
	case "C14":
		if q {
			return []phase{{"extend-histories", false, workers, 600, 60, false}, {"extend-histories-race", true, workers, 100, 60, false},
				{"extend-histories-process-per-run", false, workers, 100, 40, true}}
		}
		return []phase{{"extend-histories", false, workers, 100000, 600, false}, {"extend-histories-race", true, workers, 12000, 400, false},
			{"extend-histories-process-per-run", false, workers, 5000, 200, true}}
	}
	return nil
}

var levels = map[string]string{"C04": "exploration", "C05": "fault_enumeration", "C06": "exploration", "C14": "exploration"}

type runOut struct {
	worker int
	rep    *Report
	stderr string
	code   int
	err    error
}

func runWorker(bin string, gomaxprocs int, raceLog string, args ...string) runOut {
	cmd := exec.Command(bin, args...)
	if raceLog == "" {
		raceLog = filepath.Join(scratch, "racelog-worker")
	}
	cmd.Env = append(os.Environ(), goraceBase+" log_path="+raceLog, "VERIF_SAMPLES="+filepath.Join(repoDir, "testdata"), "VERIF_CORPUS="+corpusFile, "VERIF_CHANOPS="+chanFlag())
	if gomaxprocs > 0 {
		cmd.Env = append(cmd.Env, "GOMAXPROCS="+strconv.Itoa(gomaxprocs))
	}
	var so, se strings.Builder
	cmd.Stdout, cmd.Stderr = &so, &se
	err := cmd.Run()
	out := runOut{stderr: se.String(), err: err}
	if ee, ok := err.(*exec.ExitError); ok {
		out.code = ee.ExitCode()
	} else if err != nil {
		out.code = -1
	}
	// the report is the last line that parses
	lines := strings.Split(strings.TrimSpace(so.String()), "\n")
	for i := len(lines) - 1; i >= 0; i-- {
		var r Report
		if json.Unmarshal([]byte(lines[i]), &r) == nil && r.Property != "" {
			out.rep = &r
			break
		}
	}
	return out
}

func main() {
	if len(os.Args) < 2 {
		fmt.Fprintln(os.Stderr, "usage: vcheck <property> [--tier quick|thorough] [--replay file]")
		os.Exit(2)
	}
	prop := os.Args[1]
	fs := flag.NewFlagSet("vcheck", flag.ExitOnError)
	tier := fs.String("tier", envOr("VERIF_TIER", "quick"), "quick | thorough")
	replay := fs.String("replay", "", "replay a recorded failure")
	workers := fs.Int("workers", runtime.NumCPU(), "worker processes")
	keep := fs.Bool("keep", false, "keep the scratch directory")
	scale := fs.Float64("scale", 1, "multiply run counts (development)")
	subseeds := fs.Int("subseeds", 200, "selftest: sub-seeds per property (non-race build)")
	noSelftest := fs.Bool("no-selftest", false, "skip the determinism self-test (development)")
	fs.Parse(os.Args[2:])
	keepScratch = *keep
	seed, err := strconv.ParseUint(envOr("VERIF_SEED", "1"), 10, 64)
	if err != nil {
		seed = 1
	}
	if *tier != "quick" && *tier != "thorough" {
		*tier = "quick"
	}

	if prop == "selftest" {
		os.Exit(selftestMain(seed, *subseeds))
	}
	if _, ok := levels[prop]; !ok {
		fmt.Fprintf(os.Stderr, "vcheck: property %q is not claimed by this framework\n", prop)
		os.Exit(2)
	}
	start := time.Now()
	scratch, err = os.MkdirTemp("", "verif-"+prop+"-")
	if err != nil {
		fatal2("mktemp: %v", err)
	}
	defer cleanup()
	info, err := prepare(repoDir, verifDir, filepath.Join(scratch, "src"), false)
	if err != nil {
		fatal2("prepare: %v", err)
	}
	for _, w := range info.Warnings {
		fmt.Fprintln(os.Stderr, "WARNING:", w)
	}
	if c, warn := dumpCorpus(repoDir, verifDir, scratch); warn != "" {
		fmt.Fprintln(os.Stderr, "WARNING:", warn)
		info.Warnings = append(info.Warnings, warn)
	} else {
		info.Corpus = c
	}
	corpusFile = info.Corpus
	realDir := filepath.Join(scratch, "real")
	os.MkdirAll(realDir, 0o755)

	if *replay != "" {
		os.Exit(replayMain(prop, *replay, info, realDir))
	}

	phases := phasesFor(prop, *tier, *workers)
	bins := map[bool]string{}
	tb := time.Now()
	for _, ph := range phases {
		if _, ok := bins[ph.Race]; !ok {
			b, err := buildSim(info, ph.Race)
			if err != nil {
				fatal2("build: %v", err)
			}
			bins[ph.Race] = b
		}
	}
	info.BuildSecs = time.Since(tb).Seconds()

	ev := newEvidence(prop, *tier, seed, info)
	var failures []Replay
	runPhase := func(pi int, ph phase) {
		runs := ph.Runs
		first := 0
		if ph.Runs > 0 {
			first = pi * 10000000 // sampled workloads: every phase explores its own sub-seeds
		}
		if runs > 0 {
			runs = int(float64(runs) * *scale)
			if runs < 1 {
				runs = 1
			}
		}
		var outs []runOut
		var omu sync.Mutex
		var wg sync.WaitGroup
		t0 := time.Now()
		for w := 0; w < ph.Workers; w++ {
			wg.Add(1)
			go func(w int) {
				defer wg.Done()
				rd := filepath.Join(realDir, fmt.Sprintf("%s-w%d", ph.Name, w))
				os.MkdirAll(rd, 0o755)
				common := []string{"--prop", prop, "--tier", *tier, "--seed", strconv.FormatUint(seed, 10),
					"--worker", strconv.Itoa(w), "--workers", strconv.Itoa(ph.Workers), "--realdir", rd, "--emit-keys"}
				if !ph.Isolate {
					// A worker that had to abandon parked goroutines (a run that ended in a
					// deadlock or exhausted its budget) cannot run another simulation: its
					// successor carries on with the next run.
					next, remaining := first, runs
					for attempt := 0; attempt < 400; attempt++ {
						left := ph.BudgetS - time.Since(t0).Seconds()
						if left <= 0 && attempt > 0 {
							break
						}
						o := runWorker(bins[ph.Race], 0, "", append(common, "--runs", strconv.Itoa(remaining), "--first", strconv.Itoa(next), "--budget-s", fmt.Sprint(left))...)
						o.worker = w
						omu.Lock()
						outs = append(outs, o)
						omu.Unlock()
						if o.rep == nil || o.code != 0 || !o.rep.Tainted || len(o.rep.Failures) > 0 || o.rep.Harness != "" {
							break
						}
						done := o.rep.NextIdx - next
						if done <= 0 {
							break
						}
						next = o.rep.NextIdx
						if runs > 0 {
							remaining -= done
							if remaining <= 0 {
								break
							}
						}
					}
					return
				}
				// one process per run: whatever the library keeps outside the detector tree starts afresh
				for i := 0; i < runs && time.Since(t0).Seconds() < ph.BudgetS; i++ {
					o := runWorker(bins[ph.Race], 0, "", append(common, "--runs", "1", "--first", strconv.Itoa(first+i))...)
					o.worker = w
					omu.Lock()
					outs = append(outs, o)
					omu.Unlock()
					if o.rep == nil || o.code != 0 || len(o.rep.Failures) > 0 {
						return
					}
				}
			}(w)
		}
		wg.Wait()
		for _, o := range outs {
			w := o.worker
			if o.rep == nil || (o.code != 0) {
				fatal2("phase %s worker %d: exit %d, %v\n%s", ph.Name, w, o.code, o.err, tail(o.stderr, 30))
			}
			if o.rep.Harness != "" {
				fatal2("phase %s worker %d: %s", ph.Name, w, o.rep.Harness)
			}
			for _, f := range o.rep.Failures {
				f.Isolated = ph.Isolate
				failures = append(failures, f)
			}
		}
		ev.addPhase(ph, outs, time.Since(t0).Seconds())
	}
	for pi, ph := range phases {
		runPhase(pi, ph)
	}

	if !*noSelftest {
		st, err := determinismSelftest(prop, *tier, seed, bins, realDir)
		if err != nil {
			fatal2("determinism self-test: %v", err)
		}
		ev.Coverage["determinism_selftest"] = st
	}

	known := loadKnown(filepath.Join(verifDir, "known_findings.txt"))
	violations, knownHits := judge(prop, seed, failures, info, bins, realDir, known)
	if leakedRuns > 0 && len(violations) == 0 {
		// escalate: judge the property with no state shared between runs at all
		for pi, ph := range phases {
			if ph.Isolate {
				failures = failures[:0]
				ph.Name, ph.Runs, ph.BudgetS = "escalation-process-per-run", ph.Runs*6, ph.BudgetS*3
				runPhase(len(phases)+pi, ph)
				v2, k2 := judge(prop, seed, failures, info, bins, realDir, known)
				violations, knownHits = append(violations, v2...), knownHits+k2
			}
		}
		ev.Coverage["runs_not_reproducible_outside_their_worker"] = leakedRuns
	}
	ev.Violations = len(violations)
	ev.Coverage["failing_runs_observed"] = len(failures)
	ev.Coverage["known_findings_hit"] = knownHits
	ev.WallS = time.Since(start).Seconds()
	if err := ev.write(filepath.Join(envOr("VERIF_EVIDENCE_DIR", filepath.Join(verifDir, "evidence")), prop+".json")); err != nil {
		fatal2("write evidence: %v", err)
	}
	fmt.Printf("%s tier=%s seed=%d: %d runs, %d operations, %d distinct non-trivial cases, %d failing runs, %.1fs\n",
		prop, *tier, seed, ev.Coverage["evaluations"], ev.Coverage["operations"], ev.Coverage["distinct_nontrivial"], len(failures), ev.WallS)
	if len(violations) > 0 {
		for _, v := range violations {
			fmt.Printf("VIOLATION property=%s replay=%s\n", prop, v)
		}
		cleanup()
		os.Exit(1)
	}
}

func chanFlag() string {
	if chanOps > 0 {
		return "1"
	}
	return "0"
}

func tail(s string, n int) string {
	lines := strings.Split(strings.TrimRight(s, "\n"), "\n")
	if len(lines) > n {
		lines = lines[len(lines)-n:]
	}
	return strings.Join(lines, "\n")
}

func sortedKeys(m map[string]int) []string {
	ks := make([]string, 0, len(m))
	for k := range m {
		ks = append(ks, k)
	}
	sort.Strings(ks)
	return ks
}

func init() {
	if len(os.Args) >= 3 && os.Args[1] == "prepare" {
		info, err := prepare(repoDir, verifDir, os.Args[2], false)
		if err != nil {
			fmt.Fprintln(os.Stderr, "HARNESS:", err)
			os.Exit(2)
		}
		if c, warn := dumpCorpus(repoDir, verifDir, os.Args[2]); warn != "" {
			fmt.Fprintln(os.Stderr, "WARNING:", warn)
		} else {
			fmt.Println("corpus:", c)
		}
		for _, race := range []bool{false, true} {
			if _, err := buildSim(info, race); err != nil {
				fmt.Fprintln(os.Stderr, "HARNESS:", err)
				os.Exit(2)
			}
		}
		os.Exit(0)
	}
}
