package main

import (
	"fmt"
	"os"
)

func main() {
	if len(os.Args) >= 3 && os.Args[1] == "prepare" {
		info, err := prepare("/repo", "/verif", os.Args[2], false)
		if err != nil {
			fmt.Fprintln(os.Stderr, "HARNESS:", err)
			os.Exit(2)
		}
		fmt.Printf("%+v\n", *info)
		for _, race := range []bool{false, true} {
			if _, err := buildSim(info, race); err != nil {
				fmt.Fprintln(os.Stderr, "HARNESS:", err)
				os.Exit(2)
			}
		}
		return
	}
}
