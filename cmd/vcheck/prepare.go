package main

import (
	"bytes"
	"crypto/sha256"
	"fmt"
	"go/ast"
	"go/format"
	"go/importer"
	"go/parser"
	"go/token"
	"go/types"
	"io/fs"
	"os"
	"os/exec"
	"path/filepath"
	"sort"
	"strconv"
	"strings"
)

const modPath = "github.com/gabriel-vasile/mimetype"
const simPath = modPath + "/internal/verifsim"

var interposed = map[string][2]string{
	"sync":        {simPath + "/shim/sync", "sync"},
	"sync/atomic": {simPath + "/shim/atomic", "atomic"},
	"os":          {simPath + "/shim/os", "os"},
	"time":        {simPath + "/shim/time", "time"},
}

type prepInfo struct {
	Dir        string
	Rewritten  []string
	Warnings   []string
	RepoHead   string
	RepoDirty  bool
	GoVersion  string
	BuildSecs  float64
	Binaries   map[string]string
	FilesTotal int
	Corpus     string // file holding the repository's own sample table ("" = unavailable)
}

func copyFile(src, dst string) error {
	b, err := os.ReadFile(src)
	if err != nil {
		return err
	}
	if err := os.MkdirAll(filepath.Dir(dst), 0o755); err != nil {
		return err
	}
	return os.WriteFile(dst, b, 0o644)
}

// copyTree copies the non-test Go sources (and go.mod/go.sum) of the module at src.
func copyTree(src, dst string, keepTests bool) (int, error) {
	n := 0
	err := filepath.WalkDir(src, func(p string, d fs.DirEntry, err error) error {
		if err != nil {
			return err
		}
		rel, _ := filepath.Rel(src, p)
		if d.IsDir() {
			base := d.Name()
			if rel != "." && (strings.HasPrefix(base, ".") || base == "testdata" || base == "verifsim") {
				return filepath.SkipDir
			}
			return nil
		}
		if rel == "go.mod" || rel == "go.sum" {
			return copyFile(p, filepath.Join(dst, rel))
		}
		if !strings.HasSuffix(rel, ".go") {
			return nil
		}
		if strings.HasSuffix(rel, "_test.go") && !keepTests {
			return nil
		}
		n++
		return copyFile(p, filepath.Join(dst, rel))
	})
	return n, err
}

// rewriteImports redirects sync, sync/atomic, os and time to the shims in every
// library file below dir and reports constructs the baton cannot see.
func rewriteImports(dir string) (rewritten, warnings []string, err error) {
	err = filepath.WalkDir(dir, func(p string, d fs.DirEntry, err error) error {
		if err != nil {
			return err
		}
		if d.IsDir() {
			if d.Name() == "verifsim" {
				return filepath.SkipDir
			}
			return nil
		}
		if !strings.HasSuffix(p, ".go") || strings.HasSuffix(p, "_test.go") {
			return nil
		}
		rel, _ := filepath.Rel(dir, p)
		if strings.HasPrefix(rel, "verif_") {
			return nil
		}
		fset := token.NewFileSet()
		f, err := parser.ParseFile(fset, p, nil, parser.ParseComments)
		if err != nil {
			return fmt.Errorf("parse %s: %w", rel, err)
		}
		changed := false
		for _, im := range f.Imports {
			path, _ := strconv.Unquote(im.Path.Value)
			if to, ok := interposed[path]; ok {
				im.Path.Value = strconv.Quote(to[0])
				if im.Name == nil {
					im.Name = ast.NewIdent(to[1])
				}
				changed = true
			}
		}
		nGo := rewriteGoStmts(f)
		nCh := insertChanPoints(f)
		chanOps += nCh
		if nGo+nCh > 0 {
			changed = true
			// the printer places comments by position; around rewritten statements that
			// can go wrong, so only directives and what precedes the package clause stay
			var keep []*ast.CommentGroup
			for _, cg := range f.Comments {
				dir := false
				for _, c := range cg.List {
					dir = dir || strings.HasPrefix(c.Text, "//go:")
				}
				if cg.End() < f.Package || dir {
					keep = append(keep, cg)
				}
			}
			f.Comments = keep
			addImport(f, simPath+"/core", "verifcore")
			goRewritten = append(goRewritten, rel)
		}
		ast.Inspect(f, func(n ast.Node) bool {
			switch x := n.(type) {
			case *ast.GoStmt:
				warnings = append(warnings, fmt.Sprintf("%s:%d: go statement in an unexpected position is outside the baton scheduler", rel, fset.Position(x.Pos()).Line))
			case *ast.SendStmt:
				warnings = append(warnings, fmt.Sprintf("%s:%d: channel send is not a modelled yield point", rel, fset.Position(x.Pos()).Line))
			case *ast.SelectStmt:
				warnings = append(warnings, fmt.Sprintf("%s:%d: select is not a modelled yield point", rel, fset.Position(x.Pos()).Line))
			case *ast.UnaryExpr:
				if x.Op == token.ARROW {
					warnings = append(warnings, fmt.Sprintf("%s:%d: channel receive is not a modelled yield point", rel, fset.Position(x.Pos()).Line))
				}
			}
			return true
		})
		if !changed {
			return nil
		}
		var buf bytes.Buffer
		if err := format.Node(&buf, fset, f); err != nil {
			return fmt.Errorf("print %s: %w", rel, err)
		}
		rewritten = append(rewritten, rel)
		return os.WriteFile(p, buf.Bytes(), 0o644)
	})
	sort.Strings(rewritten)
	return
}

// chanOps counts the channel operations found in the library (0: the detection of
// tasks blocked outside the model stays off in the workers).
var chanOps int

// goRewritten lists the files whose go statements were turned into simulated tasks.
var goRewritten []string

// rewriteGoStmts turns every go statement of f into a call of the simulator's
// Go (the new goroutine becomes a task under the baton). The function value and
// its arguments are evaluated where the go statement stood, as the language
// prescribes: `go f(a, b)` becomes
//
//	{ verifA0, verifA1 := a, b; verifcore.Go(func() { f(verifA0, verifA1) }) }
//
// (literals stay in place so that untyped constants keep their meaning).
func rewriteGoStmts(f *ast.File) int {
	n := 0
	conv := func(g *ast.GoStmt) ast.Stmt {
		n++
		call := g.Call
		var lhs, rhs []ast.Expr
		args := make([]ast.Expr, len(call.Args))
		for i, a := range call.Args {
			keep := false
			switch x := a.(type) {
			case *ast.BasicLit, *ast.FuncLit:
				keep = true
			case *ast.Ident:
				keep = x.Name == "nil" || x.Name == "true" || x.Name == "false"
			}
			if keep {
				args[i] = a
				continue
			}
			id := ast.NewIdent(fmt.Sprintf("verifA%d", i))
			lhs = append(lhs, id)
			rhs = append(rhs, a)
			args[i] = id
		}
		fun := call.Fun
		if _, lit := fun.(*ast.FuncLit); !lit {
			if _, plain := fun.(*ast.Ident); !plain {
				// a method value or a more complex expression: evaluate it now
				id := ast.NewIdent("verifFn")
				lhs = append(lhs, id)
				rhs = append(rhs, fun)
				fun = id
			}
		}
		inner := &ast.CallExpr{Fun: fun, Args: args, Ellipsis: call.Ellipsis}
		if call.Ellipsis == token.NoPos {
			inner.Ellipsis = token.NoPos
		} else {
			inner.Ellipsis = 1
		}
		spawn := &ast.ExprStmt{X: &ast.CallExpr{
			Fun: &ast.SelectorExpr{X: ast.NewIdent("verifcore"), Sel: ast.NewIdent("Go")},
			Args: []ast.Expr{&ast.FuncLit{
				Type: &ast.FuncType{Params: &ast.FieldList{}},
				Body: &ast.BlockStmt{List: []ast.Stmt{&ast.ExprStmt{X: inner}}},
			}},
		}}
		blk := &ast.BlockStmt{}
		if len(lhs) > 0 {
			blk.List = append(blk.List, &ast.AssignStmt{Lhs: lhs, Tok: token.DEFINE, Rhs: rhs})
		}
		blk.List = append(blk.List, spawn)
		return blk
	}
	fix := func(list []ast.Stmt) {
		for i, st := range list {
			if g, ok := st.(*ast.GoStmt); ok {
				list[i] = conv(g)
			}
		}
	}
	ast.Inspect(f, func(nd ast.Node) bool {
		switch x := nd.(type) {
		case *ast.BlockStmt:
			fix(x.List)
		case *ast.CaseClause:
			fix(x.Body)
		case *ast.CommClause:
			fix(x.Body)
		case *ast.LabeledStmt:
			if g, ok := x.Stmt.(*ast.GoStmt); ok {
				x.Stmt = conv(g)
			}
		}
		return true
	})
	return n
}

// insertChanPoints puts a scheduling point next to every statement-level channel
// operation: before the statement, after it (send / receive statements), and at
// the head of every clause of a select. Channels themselves stay real.
func insertChanPoints(f *ast.File) int {
	n := 0
	point := func() ast.Stmt {
		return &ast.ExprStmt{X: &ast.CallExpr{Fun: &ast.SelectorExpr{X: ast.NewIdent("verifcore"), Sel: ast.NewIdent("ChanPoint")}}}
	}
	hasRecv := func(e ast.Expr) bool {
		found := false
		ast.Inspect(e, func(nd ast.Node) bool {
			switch x := nd.(type) {
			case *ast.FuncLit:
				return false
			case *ast.UnaryExpr:
				if x.Op == token.ARROW {
					found = true
				}
			}
			return !found
		})
		return found
	}
	isChanStmt := func(st ast.Stmt) (is, sel bool) {
		switch x := st.(type) {
		case *ast.SelectStmt:
			return true, true
		case *ast.SendStmt:
			return true, false
		case *ast.ExprStmt:
			return hasRecv(x.X), false
		case *ast.AssignStmt:
			for _, r := range x.Rhs {
				if hasRecv(r) {
					return true, false
				}
			}
		}
		return false, false
	}
	fix := func(list []ast.Stmt) []ast.Stmt {
		var out []ast.Stmt
		for _, st := range list {
			is, sel := isChanStmt(st)
			if !is {
				out = append(out, st)
				continue
			}
			n++
			out = append(out, point(), st)
			if sel {
				for _, c := range st.(*ast.SelectStmt).Body.List {
					cc := c.(*ast.CommClause)
					cc.Body = append([]ast.Stmt{point()}, cc.Body...)
				}
			} else {
				out = append(out, point())
			}
		}
		return out
	}
	ast.Inspect(f, func(nd ast.Node) bool {
		switch x := nd.(type) {
		case *ast.BlockStmt:
			x.List = fix(x.List)
		case *ast.CaseClause:
			x.Body = fix(x.Body)
		case *ast.CommClause:
			x.Body = fix(x.Body)
		}
		return true
	})
	return n
}

// addImport adds `name "path"` to the file's imports.
func addImport(f *ast.File, path, name string) {
	for _, im := range f.Imports {
		if p, _ := strconv.Unquote(im.Path.Value); p == path {
			return
		}
	}
	spec := &ast.ImportSpec{Name: ast.NewIdent(name), Path: &ast.BasicLit{Kind: token.STRING, Value: strconv.Quote(path)}}
	f.Imports = append(f.Imports, spec)
	for _, d := range f.Decls {
		if g, ok := d.(*ast.GenDecl); ok && g.Tok == token.IMPORT {
			g.Specs = append(g.Specs, spec)
			if !g.Lparen.IsValid() {
				g.Lparen = g.Pos()
				g.Rparen = g.End()
			}
			return
		}
	}
	f.Decls = append([]ast.Decl{&ast.GenDecl{Tok: token.IMPORT, Specs: []ast.Spec{spec}}}, f.Decls...)
}

// genOSForward writes forwarding declarations for every exported name of the
// toolchain's package os that the hand-written shim does not define itself.
func genOSForward(shimDir string) error {
	own := map[string]bool{}
	fset := token.NewFileSet()
	pkgs, err := parser.ParseDir(fset, shimDir, func(fi fs.FileInfo) bool { return fi.Name() != "forward_gen.go" }, 0)
	if err != nil {
		return err
	}
	for _, p := range pkgs {
		for _, f := range p.Files {
			for _, d := range f.Decls {
				switch x := d.(type) {
				case *ast.FuncDecl:
					if x.Recv == nil {
						own[x.Name.Name] = true
					}
				case *ast.GenDecl:
					for _, s := range x.Specs {
						switch y := s.(type) {
						case *ast.TypeSpec:
							own[y.Name.Name] = true
						case *ast.ValueSpec:
							for _, n := range y.Names {
								own[n.Name] = true
							}
						}
					}
				}
			}
		}
	}
	pkg, err := importer.ForCompiler(token.NewFileSet(), "source", nil).Import("os")
	if err != nil {
		return fmt.Errorf("load package os: %w", err)
	}
	var b strings.Builder
	b.WriteString("// Code generated by vcheck from the toolchain's package os; DO NOT EDIT.\n\npackage os\n\nimport stdos \"os\"\n\n")
	names := pkg.Scope().Names()
	sort.Strings(names)
	for _, n := range names {
		if !ast.IsExported(n) || own[n] {
			continue
		}
		switch o := pkg.Scope().Lookup(n).(type) {
		case *types.Const:
			fmt.Fprintf(&b, "const %s = stdos.%s\n", n, n)
		case *types.Var, *types.Func:
			fmt.Fprintf(&b, "var %s = stdos.%s\n", n, n)
		case *types.TypeName:
			fmt.Fprintf(&b, "type %s = stdos.%s\n", n, n)
		default:
			_ = o
		}
	}
	src, err := format.Source([]byte(b.String()))
	if err != nil {
		return err
	}
	return os.WriteFile(filepath.Join(shimDir, "forward_gen.go"), src, 0o644)
}

func goEnv() []string {
	env := os.Environ()
	env = append(env, "GOFLAGS=-mod=mod", "GOPROXY=off", "GOSUMDB=off", "GOTOOLCHAIN=local", "CGO_ENABLED=1")
	return env
}

func runIn(dir string, name string, args ...string) (string, error) {
	cmd := exec.Command(name, args...)
	cmd.Dir = dir
	cmd.Env = goEnv()
	out, err := cmd.CombinedOutput()
	return string(out), err
}

// prepare builds the interposed scratch copy of repo in dir.
func prepare(repo, verif, dir string, keepTests bool) (*prepInfo, error) {
	info := &prepInfo{Dir: dir, Binaries: map[string]string{}}
	if out, err := runIn(repo, "git", "rev-parse", "HEAD"); err == nil {
		info.RepoHead = strings.TrimSpace(out)
	}
	if out, err := runIn(repo, "git", "status", "--porcelain"); err == nil {
		info.RepoDirty = strings.TrimSpace(out) != ""
	}
	if out, err := runIn(repo, "go", "version"); err == nil {
		info.GoVersion = strings.TrimSpace(out)
	}
	n, err := copyTree(repo, dir, keepTests)
	if err != nil {
		return nil, fmt.Errorf("copy repo: %w", err)
	}
	info.FilesTotal = n
	if info.Rewritten, info.Warnings, err = rewriteImports(dir); err != nil {
		return nil, err
	}
	simDst := filepath.Join(dir, "internal", "verifsim")
	if _, err := copyTreeAll(filepath.Join(verif, "sim"), simDst); err != nil {
		return nil, fmt.Errorf("copy simulator: %w", err)
	}
	if err := copyFile(filepath.Join(verif, "overlay", "verif_export.go"), filepath.Join(dir, "verif_export.go")); err != nil {
		return nil, err
	}
	variant := "verif_root_lookup.go"
	if hasTopLevelVar(dir, "root") {
		variant = "verif_root_var.go"
	}
	if err := copyFile(filepath.Join(verif, "overlay", variant), filepath.Join(dir, "verif_root.go")); err != nil {
		return nil, err
	}
	if err := genOSForward(filepath.Join(simDst, "shim", "os")); err != nil {
		return nil, err
	}
	// porcupine comes from the module cache.
	gm, err := os.ReadFile(filepath.Join(dir, "go.mod"))
	if err != nil {
		return nil, err
	}
	gm = append(gm, []byte("\nrequire github.com/anishathalye/porcupine v1.3.0\n")...)
	if err := os.WriteFile(filepath.Join(dir, "go.mod"), gm, 0o644); err != nil {
		return nil, err
	}
	return info, nil
}

const dumpTest = `package %s

import (
	"encoding/binary"
	"os"
	"reflect"
	"testing"
)

// TestZZVerifDump writes the repository's own table of sample inputs (one or
// more per supported format) to the file named by VERIF_CORPUS_OUT.
func TestZZVerifDump(t *testing.T) {
	out := os.Getenv("VERIF_CORPUS_OUT")
	if out == "" {
		t.Skip()
	}
	f, err := os.Create(out)
	if err != nil {
		t.Fatal(err)
	}
	defer f.Close()
	put := func(s string) {
		var l [4]byte
		binary.LittleEndian.PutUint32(l[:], uint32(len(s)))
		f.Write(l[:])
		f.WriteString(s)
	}
	v := reflect.ValueOf(testcases)
	for i := 0; i < v.Len(); i++ {
		e := v.Index(i)
		if e.Kind() != reflect.Struct {
			t.Fatal("testcases is not a slice of structs")
		}
		var strs []string
		for j := 0; j < e.NumField(); j++ {
			if e.Field(j).Kind() == reflect.String {
				strs = append(strs, e.Field(j).String())
			}
		}
		if len(strs) < 2 {
			t.Fatal("a test case has fewer than two string fields")
		}
		put(strs[0])
		put(strs[1])
	}
}
`

// dumpCorpus extracts the repository's own test table of sample inputs (name,
// data) by running a generated test next to the repository's test files, in a
// scratch copy. The result is cached by the content of the test files and the
// testdata directory. Failure is not fatal: the checks then run without the
// "corpus" input family (a warning is recorded).
func dumpCorpus(repo, verif, scratch string) (path string, warn string) {
	h := sha256.New()
	var testFiles []string
	es, _ := os.ReadDir(repo)
	pkg := ""
	for _, e := range es {
		if e.IsDir() || !strings.HasSuffix(e.Name(), ".go") {
			continue
		}
		b, err := os.ReadFile(filepath.Join(repo, e.Name()))
		if err != nil {
			continue
		}
		if pkg == "" && !strings.HasSuffix(e.Name(), "_test.go") {
			if f, err := parser.ParseFile(token.NewFileSet(), e.Name(), b, parser.PackageClauseOnly); err == nil {
				pkg = f.Name.Name
			}
		}
		if strings.HasSuffix(e.Name(), "_test.go") {
			testFiles = append(testFiles, e.Name())
			fmt.Fprintf(h, "%s %d\n", e.Name(), len(b))
			h.Write(b)
		}
	}
	filepath.WalkDir(filepath.Join(repo, "testdata"), func(p string, d fs.DirEntry, err error) error {
		if err == nil && !d.IsDir() {
			if b, err := os.ReadFile(p); err == nil {
				fmt.Fprintf(h, "%s %d\n", p, len(b))
				h.Write(b)
			}
		}
		return nil
	})
	if pkg == "" || len(testFiles) == 0 {
		return "", "no test files next to the library sources: the corpus input family is empty"
	}
	fmt.Fprintf(h, "dump v1 %s", dumpTest)
	key := fmt.Sprintf("%x", h.Sum(nil))[:24]
	cacheDir := filepath.Join(verif, "bin", "corpus-cache")
	cached := filepath.Join(cacheDir, key+".bin")
	out := filepath.Join(scratch, "corpus.bin")
	if b, err := os.ReadFile(cached); err == nil && len(b) > 0 {
		if os.WriteFile(out, b, 0o644) == nil {
			return out, ""
		}
	}
	src := filepath.Join(scratch, "corpus-src")
	defer os.RemoveAll(src)
	if _, err := copyTree(repo, src, true); err != nil {
		return "", "corpus: " + err.Error()
	}
	if _, err := os.Stat(filepath.Join(repo, "testdata")); err == nil {
		if _, err := copyTreeAll(filepath.Join(repo, "testdata"), filepath.Join(src, "testdata")); err != nil {
			return "", "corpus: " + err.Error()
		}
	}
	if err := os.WriteFile(filepath.Join(src, "zz_verif_dump_test.go"), []byte(fmt.Sprintf(dumpTest, pkg)), 0o644); err != nil {
		return "", "corpus: " + err.Error()
	}
	cmd := exec.Command("go", "test", "-vet=off", "-count=1", "-run", "^TestZZVerifDump$", ".")
	cmd.Dir = src
	cmd.Env = append(goEnv(), "VERIF_CORPUS_OUT="+out)
	if b, err := cmd.CombinedOutput(); err != nil {
		return "", "corpus: the repository's test table could not be extracted (" + err.Error() + "): " + tail(string(b), 6)
	}
	if b, err := os.ReadFile(out); err == nil && len(b) > 0 {
		if os.MkdirAll(cacheDir, 0o755) == nil {
			tmp := cached + fmt.Sprintf(".%d.tmp", os.Getpid())
			if os.WriteFile(tmp, b, 0o644) == nil {
				os.Rename(tmp, cached)
			}
		}
		return out, ""
	}
	return "", "corpus: the dump produced no data"
}

// hasTopLevelVar reports whether the package in dir declares a package-level variable with that name.
func hasTopLevelVar(dir, name string) bool {
	fset := token.NewFileSet()
	pkgs, err := parser.ParseDir(fset, dir, func(fi fs.FileInfo) bool {
		return !strings.HasSuffix(fi.Name(), "_test.go") && !strings.HasPrefix(fi.Name(), "verif_")
	}, 0)
	if err != nil {
		return false
	}
	for _, p := range pkgs {
		for _, f := range p.Files {
			for _, d := range f.Decls {
				g, ok := d.(*ast.GenDecl)
				if !ok || g.Tok != token.VAR {
					continue
				}
				for _, sp := range g.Specs {
					for _, n := range sp.(*ast.ValueSpec).Names {
						if n.Name == name {
							return true
						}
					}
				}
			}
		}
	}
	return false
}

func copyTreeAll(src, dst string) (int, error) {
	n := 0
	err := filepath.WalkDir(src, func(p string, d fs.DirEntry, err error) error {
		if err != nil {
			return err
		}
		if d.IsDir() {
			return nil
		}
		rel, _ := filepath.Rel(src, p)
		n++
		return copyFile(p, filepath.Join(dst, rel))
	})
	return n, err
}

// buildSim compiles simrun (race or not) in the prepared scratch module.
func buildSim(info *prepInfo, race bool) (string, error) {
	name := "simrun"
	args := []string{"build", "-tags", "verif"}
	if race {
		name = "simrun-race"
		args = append(args, "-race")
	}
	bin := filepath.Join(info.Dir, name)
	args = append(args, "-o", bin, "./internal/verifsim/cmd/simrun")
	out, err := runIn(info.Dir, "go", args...)
	if err != nil {
		return "", fmt.Errorf("go %s: %v\n%s", strings.Join(args, " "), err, out)
	}
	info.Binaries[name] = bin
	return bin, nil
}
