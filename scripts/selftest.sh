#!/bin/sh
# Large determinism self-test (DESIGN.md 2.7): ./scripts/selftest.sh [sub-seeds]
cd "$(dirname "$0")/.." && exec ./check selftest --subseeds "${1:-200}"
