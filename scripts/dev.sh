#!/bin/sh
# development helper: rebuild the scratch copy at /tmp/vdev
export GOFLAGS=-mod=mod GOPROXY=off GOSUMDB=off GOTOOLCHAIN=local
cd /verif && go build -o bin/vcheck ./cmd/vcheck && rm -rf /tmp/vdev && bin/vcheck prepare /tmp/vdev && mkdir -p /tmp/vdev/real
