#!/bin/sh
# usage: scripts/regress.sh [log]   runs every seeded change, every benign refactoring and every hand-written
# mutant against a scratch worktree of /repo (so /repo itself stays free) and prints one line per change.
# REGRESS_PARTS (default "seeded benign mutants") selects the parts; REGRESS_SEEDS is a glob under seeded/.
log=${1:-/tmp/regress.log}
wt=${REGRESS_WT:-/tmp/regress-repo}
parts=${REGRESS_PARTS:-"seeded benign mutants"}
git -C /repo worktree remove --force $wt >/dev/null 2>&1
git -C /repo worktree add -q --detach $wt HEAD || exit 2
export VERIF_REPO=$wt
V=${VERIF_DIR:-/verif}; export VERIF_DIR=$V; cd "$V"
: > $log
case "$parts" in *seeded*) ;; *) skip_seeded=1;; esac
case "$parts" in *benign*) ;; *) skip_benign=1;; esac
case "$parts" in *mutants*) ;; *) skip_mutants=1;; esac
for d in seeded/${REGRESS_SEEDS:-[SA][0-9]*}; do
	[ -n "$skip_seeded" ] && break
	id=$(basename $d)
	prop=$(python3 -c "import json;print(json.load(open('$d/meta.json'))['breaks_property'])")
	out=$(seeded/run.sh $id $prop 2>&1)
	echo "$out" | grep -E "^== " >> $log
	echo "$out" | grep -E "^violation" | head -1 | cut -c1-200 >> $log
done
for d in benign/ben*; do
	[ -n "$skip_benign" ] && break
	benign/run.sh $d 2>&1 | grep -E "^(==|NOTE|VIOLATION|CANNOT)" | cut -c1-200 >> $log
done
for m in mutants/*.diff; do
	[ -n "$skip_mutants" ] && break
	prop=$(basename $m | sed -E 's/^(benign_)?(c[0-9]+)_.*/\2/' | tr a-z A-Z)
	mutants/run.sh $prop $m 2>&1 | grep -E "^== " >> $log
done
git -C /repo worktree remove --force $wt
echo DONE >> $log
