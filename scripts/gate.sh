#!/bin/sh
# usage: scripts/gate.sh [seeds...]   (default: 1 2 3 4 5 6)
# The gate before every commit that touches a generator, a model or an oracle: all four quick
# checks on the UNCHANGED tree, under several seeds, must be silent. Evidence goes to a temp dir.
V=${VERIF_DIR:-/verif}; cd "$V"
seeds=${*:-"1 2 3 4 5 6"}
tmp=$(mktemp -d /tmp/vgate-XXXXXX); trap 'rm -rf "$tmp"' EXIT
bad=0
if [ -n "$(git -C ${VERIF_REPO:-/repo} status --porcelain)" ]; then echo "GATE: the repository tree is not clean"; exit 2; fi
for sd in $seeds; do
	for p in C05 C14 C06 C04; do
		out=$(VERIF_SEED=$sd VERIF_EVIDENCE_DIR=$tmp VERIF_REPLAY_DIR=$tmp ./check $p --tier quick --no-selftest 2>&1); code=$?
		echo "$out" | grep -E "^(C[0-9]+ tier|VIOLATION|violation|CANNOT|HARNESS|NOTE)" | cut -c1-300
		[ $code -ne 0 ] && { bad=1; cp $tmp/*.json /tmp/ 2>/dev/null; }
	done
done
[ $bad -eq 0 ] && echo "GATE: clean" || echo "GATE: NOT CLEAN"
exit $bad
