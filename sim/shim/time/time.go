// Package time is what library code gets when it imports "time" in the scratch
// copy: the real package, except that the CLOCK belongs to the simulator. Now,
// Since and Until read a simulated wall clock that only moves when a plan says so
// (a "clock" operation: forwards by seconds, minutes, days - or backwards, as
// wall clocks do); Sleep advances it instead of waiting. Everything that is a pure
// function of its arguments (Parse, Date, Duration arithmetic, formatting) is the
// standard library's. Timers and tickers are the real ones: the library under
// test has none, and a change that adds one runs it on real time (prepare warns).
package time

import (
	"sync/atomic"
	stdtime "time"
)

type (
	Time       = stdtime.Time
	Duration   = stdtime.Duration
	Month      = stdtime.Month
	Weekday    = stdtime.Weekday
	Location   = stdtime.Location
	Timer      = stdtime.Timer
	Ticker     = stdtime.Ticker
	ParseError = stdtime.ParseError
)

const (
	Nanosecond  = stdtime.Nanosecond
	Microsecond = stdtime.Microsecond
	Millisecond = stdtime.Millisecond
	Second      = stdtime.Second
	Minute      = stdtime.Minute
	Hour        = stdtime.Hour

	Layout      = stdtime.Layout
	ANSIC       = stdtime.ANSIC
	UnixDate    = stdtime.UnixDate
	RubyDate    = stdtime.RubyDate
	RFC822      = stdtime.RFC822
	RFC822Z     = stdtime.RFC822Z
	RFC850      = stdtime.RFC850
	RFC1123     = stdtime.RFC1123
	RFC1123Z    = stdtime.RFC1123Z
	RFC3339     = stdtime.RFC3339
	RFC3339Nano = stdtime.RFC3339Nano
	Kitchen     = stdtime.Kitchen
	Stamp       = stdtime.Stamp
	StampMilli  = stdtime.StampMilli
	StampMicro  = stdtime.StampMicro
	StampNano   = stdtime.StampNano
	DateTime    = stdtime.DateTime
	DateOnly    = stdtime.DateOnly
	TimeOnly    = stdtime.TimeOnly

	January   = stdtime.January
	February  = stdtime.February
	March     = stdtime.March
	April     = stdtime.April
	May       = stdtime.May
	June      = stdtime.June
	July      = stdtime.July
	August    = stdtime.August
	September = stdtime.September
	October   = stdtime.October
	November  = stdtime.November
	December  = stdtime.December

	Sunday    = stdtime.Sunday
	Monday    = stdtime.Monday
	Tuesday   = stdtime.Tuesday
	Wednesday = stdtime.Wednesday
	Thursday  = stdtime.Thursday
	Friday    = stdtime.Friday
	Saturday  = stdtime.Saturday
)

var (
	UTC   = stdtime.UTC
	Local = stdtime.Local
)

// Pure functions and the real timers.
var (
	Parse           = stdtime.Parse
	ParseInLocation = stdtime.ParseInLocation
	ParseDuration   = stdtime.ParseDuration
	Date            = stdtime.Date
	Unix            = stdtime.Unix
	UnixMilli       = stdtime.UnixMilli
	UnixMicro       = stdtime.UnixMicro
	FixedZone       = stdtime.FixedZone
	LoadLocation    = stdtime.LoadLocation
	NewTimer        = stdtime.NewTimer
	NewTicker       = stdtime.NewTicker
	After           = stdtime.After
	AfterFunc       = stdtime.AfterFunc
	Tick            = stdtime.Tick
)

// The simulated clock: nanoseconds since an arbitrary epoch. Monotonic readings
// (what Since and Sub see for values obtained from Now) and wall readings move
// together, except that a backward jump moves the wall clock only.
var (
	epoch = stdtime.Date(2024, 3, 9, 12, 0, 0, 0, stdtime.UTC)
	wall  atomic.Int64 // offset of the wall clock from epoch
	Reads atomic.Int64 // how often library code read the clock (evidence)
)

// Now is the simulated wall clock. The value carries no monotonic reading, so
// differences between two of them are differences of the simulated wall clock.
func Now() Time {
	Reads.Add(1)
	return epoch.Add(Duration(wall.Load()))
}

func Since(t Time) Duration { return Now().Sub(t) }
func Until(t Time) Duration { return t.Sub(Now()) }

// Sleep advances the simulated clock instead of waiting.
func Sleep(d Duration) {
	if d > 0 {
		wall.Add(int64(d))
	}
}

// Advance moves the simulated clock (the simulator's side; negative: the wall clock is set back).
func Advance(d Duration) { wall.Add(int64(d)) }

// Reset puts the clock back to the epoch (between runs).
func Reset() { wall.Store(0) }
