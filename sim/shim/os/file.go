// Package os is a drop-in replacement for the standard os package inside the
// simulation build. Paths below "sim:/" are served from simio.FS through the
// fault-injecting delivery engine; everything else goes to the real package.
// forward_gen.go (generated at build time from the toolchain's own package os)
// forwards the rest of the API unchanged.
package os

import (
	"errors"
	"io"
	"io/fs"
	stdos "os"
	"syscall"
	"time"

	"github.com/gabriel-vasile/mimetype/internal/verifsim/core"
	"github.com/gabriel-vasile/mimetype/internal/verifsim/simio"
)

// File wraps *os.File. For simulated paths the embedded pointer is nil and
// the methods below serve the simulated content.
type File struct {
	*stdos.File
	sim  *simio.Stream
	spec *simio.FileSpec
	name string
	shut bool
}

// Observer, when set by the harness (before the tasks start), is told about
// every simulated stream that is opened and closed. It runs on the calling task.
var Observer func(ev string, name string, s *simio.Stream)

func wrap(f *stdos.File, err error) (*File, error) {
	if f == nil {
		return nil, err
	}
	return &File{File: f}, err
}

func openSim(name string) (*File, error) {
	if t := core.Cur(); t != nil {
		t.Yield(core.KOpen, nil, "file", 0)
	}
	spec := simio.FS[name]
	if spec == nil {
		return nil, &fs.PathError{Op: "open", Path: name, Err: syscall.ENOENT}
	}
	if spec.OpenErr != nil {
		return nil, &fs.PathError{Op: "open", Path: name, Err: spec.OpenErr}
	}
	s := &simio.Stream{Data: spec.Data, D: spec.D}
	rerr := spec.ReadErr
	if rerr == nil {
		rerr = syscall.EIO
	}
	if f := simio.Flavour(spec.D.ErrWraps); f != nil {
		rerr = f
	}
	s.Err = &fs.PathError{Op: "read", Path: name, Err: rerr}
	if Observer != nil {
		Observer("open", name, s)
	}
	return &File{sim: s, spec: spec, name: name}, nil
}

func Open(name string) (*File, error) {
	if simio.IsSim(name) {
		return openSim(name)
	}
	return wrap(stdos.Open(name))
}

func OpenFile(name string, flag int, perm FileMode) (*File, error) {
	if simio.IsSim(name) {
		return openSim(name)
	}
	return wrap(stdos.OpenFile(name, flag, perm))
}

func Create(name string) (*File, error)             { return wrap(stdos.Create(name)) }
func CreateTemp(dir, pattern string) (*File, error) { return wrap(stdos.CreateTemp(dir, pattern)) }
func NewFile(fd uintptr, name string) *File {
	f := stdos.NewFile(fd, name)
	if f == nil {
		return nil
	}
	return &File{File: f}
}

func Pipe() (r *File, w *File, err error) {
	pr, pw, err := stdos.Pipe()
	if err != nil {
		return nil, nil, err
	}
	return &File{File: pr}, &File{File: pw}, nil
}

var (
	Stdin  = &File{File: stdos.Stdin}
	Stdout = &File{File: stdos.Stdout}
	Stderr = &File{File: stdos.Stderr}
)

func ReadFile(name string) ([]byte, error) {
	if simio.IsSim(name) {
		f, err := openSim(name)
		if err != nil {
			return nil, err
		}
		defer f.Close()
		return io.ReadAll(f)
	}
	return stdos.ReadFile(name)
}

type simInfo struct {
	name string
	spec *simio.FileSpec
}

func (i simInfo) Name() string { return i.name }
func (i simInfo) Size() int64 {
	if i.spec.Fifo {
		return 0
	}
	if i.spec.StatSize > 0 {
		return int64(i.spec.StatSize - 1)
	}
	return int64(len(i.spec.Data))
}
func (i simInfo) Mode() fs.FileMode {
	if i.spec.IsDir {
		return fs.ModeDir | 0o755
	}
	if i.spec.Fifo {
		return fs.ModeNamedPipe | 0o644
	}
	return 0o644
}
func (i simInfo) ModTime() time.Time { return time.Time{} }
func (i simInfo) IsDir() bool        { return i.spec.IsDir }
func (i simInfo) Sys() any           { return nil }

func Stat(name string) (FileInfo, error) {
	if simio.IsSim(name) {
		spec := simio.FS[name]
		if spec == nil {
			return nil, &fs.PathError{Op: "stat", Path: name, Err: syscall.ENOENT}
		}
		if spec.OpenErr == syscall.ENOENT {
			return nil, &fs.PathError{Op: "stat", Path: name, Err: syscall.ENOENT}
		}
		return simInfo{name, spec}, nil
	}
	return stdos.Stat(name)
}

func Lstat(name string) (FileInfo, error) {
	if simio.IsSim(name) {
		return Stat(name)
	}
	return stdos.Lstat(name)
}

func (f *File) Read(p []byte) (int, error) {
	if f == nil {
		return 0, ErrInvalid
	}
	if f.sim == nil {
		return f.File.Read(p)
	}
	if f.shut {
		return 0, &fs.PathError{Op: "read", Path: f.name, Err: ErrClosed}
	}
	if f.spec.IsDir {
		if t := core.Cur(); t != nil {
			t.Yield(core.KRead, nil, "file", int64(len(p)))
		}
		f.sim.Calls++
		f.sim.Faulted = true
		return 0, &fs.PathError{Op: "read", Path: f.name, Err: syscall.EISDIR}
	}
	return f.sim.Read(p)
}

func (f *File) Close() error {
	if f == nil {
		return ErrInvalid
	}
	if f.sim == nil {
		return f.File.Close()
	}
	if t := core.Cur(); t != nil {
		t.Yield(core.KClose, nil, "file", 0)
	}
	if f.shut {
		return &fs.PathError{Op: "close", Path: f.name, Err: ErrClosed}
	}
	f.shut = true
	f.sim.Closed++
	if Observer != nil {
		Observer("close", f.name, f.sim)
	}
	return nil
}

func (f *File) Name() string {
	if f != nil && f.sim != nil {
		return f.name
	}
	return f.File.Name()
}

func (f *File) Stat() (FileInfo, error) {
	if f != nil && f.sim != nil {
		return simInfo{f.name, f.spec}, nil
	}
	return f.File.Stat()
}

// Seek moves the position of a simulated file (no bytes are delivered).
func (f *File) Seek(off int64, whence int) (int64, error) {
	if f != nil && f.sim != nil {
		if f.shut {
			return 0, &fs.PathError{Op: "seek", Path: f.name, Err: ErrClosed}
		}
		if f.spec.IsDir {
			return 0, nil
		}
		if f.spec.Fifo {
			return 0, &fs.PathError{Op: "seek", Path: f.name, Err: syscall.ESPIPE}
		}
		if t := core.Cur(); t != nil {
			t.Yield(core.KYield, nil, "file-seek", off)
		}
		np, err := f.sim.Seek(off, whence)
		if err != nil {
			return np, &fs.PathError{Op: "seek", Path: f.name, Err: syscall.EINVAL}
		}
		return np, nil
	}
	return f.File.Seek(off, whence)
}

// ReadAt serves pread on a simulated file: it does not move the position; it
// fails where the file's delivery schedule places the fault, and reports io.EOF
// when fewer than len(p) bytes exist beyond off, as io.ReaderAt prescribes.
func (f *File) ReadAt(p []byte, off int64) (int, error) {
	if f != nil && f.sim != nil {
		if f.shut {
			return 0, &fs.PathError{Op: "read", Path: f.name, Err: ErrClosed}
		}
		if off < 0 {
			return 0, &fs.PathError{Op: "readat", Path: f.name, Err: errors.New("negative offset")}
		}
		if f.spec.Fifo {
			return 0, &fs.PathError{Op: "read", Path: f.name, Err: syscall.ESPIPE}
		}
		if t := core.Cur(); t != nil {
			t.Yield(core.KRead, nil, "file-readat", int64(len(p)))
		}
		if f.spec.IsDir {
			f.sim.Calls++
			f.sim.Faulted = true
			return 0, &fs.PathError{Op: "read", Path: f.name, Err: syscall.EISDIR}
		}
		n, err := f.sim.ReadAt(p, off)
		if t := core.Cur(); t != nil {
			t.Yield(core.KReadRet, nil, "file-readat", int64(n))
		}
		return n, err
	}
	return f.File.ReadAt(p, off)
}

// WriteTo keeps io.Copy on a simulated file going through Read.
func (f *File) WriteTo(w io.Writer) (int64, error) {
	if f != nil && f.sim != nil {
		return io.Copy(w, struct{ io.Reader }{f})
	}
	return f.File.WriteTo(w)
}

// ReadFrom forwards to the real file.
func (f *File) ReadFrom(r io.Reader) (int64, error) {
	if f != nil && f.sim != nil {
		return 0, &fs.PathError{Op: "write", Path: f.name, Err: syscall.EBADF}
	}
	return f.File.ReadFrom(r)
}
