// Package sync is a drop-in replacement for the standard sync package used
// only inside the simulation build (imports are rewritten on a scratch copy).
// Mutex and RWMutex are gated by the kernel's lock model and then performed on
// the embedded real primitive, Pool is replaced by the kernel's
// nondeterministic-choice model. Outside a simulated task everything passes
// straight through (Pool: always New).
package sync

import (
	stdsync "sync"
	"unsafe"

	"github.com/gabriel-vasile/mimetype/internal/verifsim/core"
)

// Pass-through declarations for the parts of the API the simulator does not interpret.
type (
	Locker = stdsync.Locker
	Map    = stdsync.Map
)

// WaitGroup is sync.WaitGroup under the simulator: the counter is modelled (Wait
// is a blocking point the scheduler owns), then performed on the real one.
type WaitGroup struct{ wg stdsync.WaitGroup }

func (w *WaitGroup) Add(delta int) {
	if t := core.Cur(); t != nil {
		t.WGAdd(w, delta)
	}
	w.wg.Add(delta)
}

func (w *WaitGroup) Done() { w.Add(-1) }

func (w *WaitGroup) Wait() {
	if t := core.Cur(); t != nil {
		t.WGWait(w) // granted when the modelled counter is zero: the real Wait below cannot block
	}
	w.wg.Wait()
}

// Cond is sync.Cond under the simulator. L is the modelled Mutex / RWMutex.
type Cond struct {
	L    Locker
	real *stdsync.Cond
}

func NewCond(l Locker) *Cond { return &Cond{L: l, real: stdsync.NewCond(l)} }

func (c *Cond) r() *stdsync.Cond {
	if c.real == nil {
		c.real = stdsync.NewCond(c.L)
	}
	return c.real
}

func (c *Cond) Wait() {
	t := core.Cur()
	if t == nil {
		c.r().Wait()
		return
	}
	t.CondEnqueue(c) // on the notify list before L is released, as in the runtime
	c.L.Unlock()
	t.CondWait(c)
	c.L.Lock()
}

func (c *Cond) Signal() {
	if t := core.Cur(); t != nil {
		t.CondSignal(c)
		return
	}
	c.r().Signal()
}

func (c *Cond) Broadcast() {
	if t := core.Cur(); t != nil {
		t.CondBroadcast(c)
		return
	}
	c.r().Broadcast()
}

func OnceFunc(f func()) func() {
	var once Once
	return func() { once.Do(f) }
}

func OnceValue[T any](f func() T) func() T {
	var once Once
	var v T
	return func() T {
		once.Do(func() { v = f() })
		return v
	}
}

func OnceValues[T1, T2 any](f func() (T1, T2)) func() (T1, T2) {
	var once Once
	var v1 T1
	var v2 T2
	return func() (T1, T2) {
		once.Do(func() { v1, v2 = f() })
		return v1, v2
	}
}

// Mutex is sync.Mutex under the simulator.
type Mutex struct{ m stdsync.Mutex }

func (m *Mutex) Lock() {
	if t := core.Cur(); t != nil {
		t.Acquire(core.KMLock, m, "mutex")
	}
	m.m.Lock()
}

func (m *Mutex) TryLock() bool {
	if t := core.Cur(); t != nil {
		if !t.Try(core.KTryLock, m, "mutex") {
			return false
		}
		m.m.Lock()
		return true
	}
	return m.m.TryLock()
}

func (m *Mutex) Unlock() {
	t := core.Cur()
	if t != nil {
		t.Yield(core.KMUnlock, m, "mutex", 0)
	}
	m.m.Unlock()
	if t != nil {
		t.Yield(core.KAfterUnlock, m, "mutex", 0)
	}
}

// RWMutex is sync.RWMutex under the simulator.
type RWMutex struct{ rw stdsync.RWMutex }

func (m *RWMutex) RLock() {
	if t := core.Cur(); t != nil {
		t.Acquire(core.KRLock, m, "rwmutex")
	}
	m.rw.RLock()
}

func (m *RWMutex) TryRLock() bool {
	if t := core.Cur(); t != nil {
		if !t.Try(core.KTryRLock, m, "rwmutex") {
			return false
		}
		m.rw.RLock()
		return true
	}
	return m.rw.TryRLock()
}

func (m *RWMutex) RUnlock() {
	t := core.Cur()
	if t != nil {
		t.Yield(core.KRUnlock, m, "rwmutex", 0)
	}
	m.rw.RUnlock()
	if t != nil {
		t.Yield(core.KAfterUnlock, m, "rwmutex", 0)
	}
}

func (m *RWMutex) Lock() {
	if t := core.Cur(); t != nil {
		t.Acquire(core.KLock, m, "rwmutex")
	}
	m.rw.Lock()
}

func (m *RWMutex) TryLock() bool {
	if t := core.Cur(); t != nil {
		if !t.Try(core.KTryLock, m, "rwmutex") {
			return false
		}
		m.rw.Lock()
		return true
	}
	return m.rw.TryLock()
}

func (m *RWMutex) Unlock() {
	t := core.Cur()
	if t != nil {
		t.Yield(core.KUnlock, m, "rwmutex", 0)
	}
	m.rw.Unlock()
	if t != nil {
		t.Yield(core.KAfterUnlock, m, "rwmutex", 1)
	}
}

type rlocker RWMutex

func (r *rlocker) Lock()   { (*RWMutex)(r).RLock() }
func (r *rlocker) Unlock() { (*RWMutex)(r).RUnlock() }

func (m *RWMutex) RLocker() Locker { return (*rlocker)(m) }

// Once is sync.Once built on the modelled Mutex.
type Once struct {
	m    Mutex
	done bool
}

func (o *Once) Do(f func()) {
	o.m.Lock()
	defer o.m.Unlock()
	if !o.done {
		defer func() { o.done = true }()
		f()
	}
}

// Pool is the modelled sync.Pool: Put adds to a set owned by the kernel, Get
// returns New() or any element of the set, by recorded choice.
type Pool struct {
	New func() any
}

func dataWord(x any) unsafe.Pointer {
	return (*[2]unsafe.Pointer)(unsafe.Pointer(&x))[1]
}

func (p *Pool) Get() any {
	if t := core.Cur(); t != nil {
		if v, ok := t.PoolGet(p, "pool"); ok {
			core.RaceAcquire(dataWord(v))
			return v
		}
	}
	if p.New != nil {
		return p.New()
	}
	return nil
}

func (p *Pool) Put(x any) {
	if x == nil {
		return
	}
	if t := core.Cur(); t != nil {
		// The release edge is published only once the kernel has applied the Put
		// (the task runs on, alone, until its next request). Releasing before
		// the scheduling point would order everything this task did with the
		// object before any Get another task is granted while this Put is still
		// pending - and hide the race when one object sits in the pool twice.
		t.PoolPut(p, "pool", x)
		core.RaceReleaseMerge(dataWord(x))
	}
}
