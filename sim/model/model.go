// Package model is the small executable reference model of the detector tree
// under Extend. Built-in behaviour enters only through lib.B ("what this same
// build answered on the pristine tree"); the model itself knows how
// extensions are consulted: newest first, in front of the siblings that
// existed when they were registered, only below an accepted parent.
package model

import (
	"bytes"
	"encoding/hex"
	"fmt"
	"strings"
	"sync/atomic"

	"github.com/gabriel-vasile/mimetype/internal/verifsim/lib"
)

// Pred is a conjunction of optional clauses over (raw, limit). The zero value accepts everything.
type Pred struct {
	Prefix   string `json:"prefix,omitempty"`   // hex; raw must start with these bytes
	Contains int    `json:"contains,omitempty"` // 1+byte value that must occur in raw (0: no clause)
	MinLen   int    `json:"minlen,omitempty"`   // len(raw) >= MinLen
	MaxLen   int    `json:"maxlen,omitempty"`   // >0: len(raw) <= MaxLen
	LimitEq  int64  `json:"limiteq,omitempty"`  // 1+limit that must have been passed (0: no clause)
	LimitNe  int64  `json:"limitne,omitempty"`  // 1+limit that must not have been passed
	Never    bool   `json:"never,omitempty"`    // rejects everything
	// PanicPrefix (hex): a detector with a bug - it panics when raw starts with these
	// bytes (the caller recovers, as net/http does for every handler). The model does
	// not say what a detection of such an input returns; it says that nothing else changes.
	PanicPrefix string `json:"panic_prefix,omitempty"`
	// CallsBack > 0: before it decides, the detector consults the library itself (1: Lookup
	// of a built-in name, 2: Lookup of a name nobody registered, 3: Detect on a constant,
	// 4: Lookup and an accessor on what it returns) and ignores the answer - an envelope
	// format whose header names its payload's type does this. Only in histories whose
	// callers never register anything while detections run: a read lock taken again while
	// a writer waits is the documented way to deadlock a sync.RWMutex, library or not.
	CallsBack int `json:"calls_back,omitempty"`
	// FlagEq > 0: the detector accepts only while the caller's own switch (a plug-in
	// registry, a feature flag; the package variable Flag here) holds FlagEq-1. The
	// property says "arbitrary detector predicates": a detector may consult state that
	// the library knows nothing about, and it must be asked every time.
	FlagEq int `json:"flag_eq,omitempty"`
}

// Flag is the switch FlagEq detectors consult: set by "setflag" operations during a run and
// by the checker, operation by operation, when it computes what the model expects.
var Flag atomic.Int32

// DetectorPanic is the value a trap detector panics with.
type DetectorPanic struct{ Ext int }

// VerifUserPanic marks the value for the kernel.
func (DetectorPanic) VerifUserPanic() {}

// Traps reports whether raw makes the detector panic.
func (p Pred) Traps(raw []byte) bool {
	if p.PanicPrefix == "" {
		return false
	}
	pre, err := hex.DecodeString(p.PanicPrefix)
	return err == nil && bytes.HasPrefix(raw, pre)
}

// Eval evaluates the predicate; it is what the registered detector computes.
func (p Pred) Eval(raw []byte, limit uint32) bool {
	if p.Never {
		return false
	}
	if p.Prefix != "" {
		pre, err := hex.DecodeString(p.Prefix)
		if err != nil || !bytes.HasPrefix(raw, pre) {
			return false
		}
	}
	if p.Contains > 0 && bytes.IndexByte(raw, byte(p.Contains-1)) < 0 {
		return false
	}
	if len(raw) < p.MinLen {
		return false
	}
	if p.MaxLen > 0 && len(raw) > p.MaxLen {
		return false
	}
	if p.LimitEq > 0 && int64(limit) != p.LimitEq-1 {
		return false
	}
	if p.LimitNe > 0 && int64(limit) == p.LimitNe-1 {
		return false
	}
	if p.FlagEq > 0 && int(Flag.Load()) != p.FlagEq-1 {
		return false
	}
	return true
}

func (p Pred) String() string {
	var s []string
	if p.Never {
		s = append(s, "never")
	}
	if p.PanicPrefix != "" {
		s = append(s, "panics-on:"+p.PanicPrefix)
	}
	if p.CallsBack > 0 {
		s = append(s, fmt.Sprintf("calls-back:%d", p.CallsBack))
	}
	if p.FlagEq > 0 {
		s = append(s, fmt.Sprintf("flag==%d", p.FlagEq-1))
	}
	if p.Prefix != "" {
		s = append(s, "prefix:"+p.Prefix)
	}
	if p.Contains > 0 {
		s = append(s, fmt.Sprintf("contains:%02x", p.Contains-1))
	}
	if p.MinLen > 0 {
		s = append(s, fmt.Sprintf("len>=%d", p.MinLen))
	}
	if p.MaxLen > 0 {
		s = append(s, fmt.Sprintf("len<=%d", p.MaxLen))
	}
	if p.LimitEq > 0 {
		s = append(s, fmt.Sprintf("limit==%d", p.LimitEq-1))
	}
	if p.LimitNe > 0 {
		s = append(s, fmt.Sprintf("limit!=%d", p.LimitNe-1))
	}
	if len(s) == 0 {
		return "true"
	}
	return strings.Join(s, "&")
}

// Ext is one Extend call.
type Ext struct {
	ID int `json:"id"`
	// Parent: "" = package-level Extend (the root); otherwise the name given
	// to Lookup to find the node Extend is called on (a built-in type or
	// alias, or the type/alias of an earlier extension).
	Parent    string   `json:"parent,omitempty"`
	ParentExt int      `json:"parent_ext"` // id of the extension Parent names, -1 if built-in/root
	Pred      Pred     `json:"pred"`
	Mime      string   `json:"mime"`
	Extension string   `json:"ext"`
	Aliases   []string `json:"aliases,omitempty"`
	// Alias slice shape: the aliases are handed to Extend as a slice with
	// SpareCap extra capacity; Arr >= 0 selects a shared backing array
	// (plan-level) at offset Off instead of a private one.
	SpareCap int `json:"spare_cap,omitempty"`
	Arr      int `json:"arr"`
	Off      int `json:"off,omitempty"`
}

// Names returns the type and aliases.
func (e *Ext) Names() []string { return append([]string{e.Mime}, e.Aliases...) }

// attach resolves the node an extension hangs on: either another extension or
// a built-in node identified by what Lookup(Parent) showed on the pristine tree.
type attach struct {
	ext     *Ext     // non-nil: parent is an extension
	builtin lib.Node // otherwise: (type, extension) of the built-in node
}

func resolve(e *Ext, byID map[int]*Ext) (attach, bool) {
	if e.ParentExt >= 0 {
		p := byID[e.ParentExt]
		if p == nil {
			return attach{}, false
		}
		return attach{ext: p}, true
	}
	name := e.Parent
	if name == "" {
		name = "application/octet-stream"
	}
	r := lib.LB(name)
	if r.Nil {
		return attach{}, false
	}
	return attach{builtin: lib.Node{Str: lib.Bare(r.Chain[0].Str), Ext: r.Chain[0].Ext}}, true
}

// Walk is M(x, L, E): the expected observation for input x at limit l with
// the extensions exts registered in that order.
func Walk(x []byte, l uint32, exts []*Ext) lib.Res {
	hdr := lib.Header(x, l)
	b := lib.B(hdr, l)
	if b.Nil || len(exts) == 0 {
		return b
	}
	byID := map[int]*Ext{}
	for _, e := range exts {
		byID[e.ID] = e
	}
	// path from the root down to B's leaf
	n := len(b.Chain)
	onBuiltin := func(node lib.Node) []*Ext {
		var out []*Ext
		for i := len(exts) - 1; i >= 0; i-- { // newest first
			a, ok := resolve(exts[i], byID)
			if ok && a.ext == nil && a.builtin == node {
				out = append(out, exts[i])
			}
		}
		return out
	}
	onExt := func(p *Ext) []*Ext {
		var out []*Ext
		for i := len(exts) - 1; i >= 0; i-- {
			if exts[i].ParentExt == p.ID {
				out = append(out, exts[i])
			}
		}
		return out
	}
	for i := n - 1; i >= 0; i-- {
		node := lib.Node{Str: lib.Bare(b.Chain[i].Str), Ext: b.Chain[i].Ext}
		var hit *Ext
		for _, e := range onBuiltin(node) {
			if e.Pred.Eval(hdr, l) {
				hit = e
				break
			}
		}
		if hit == nil {
			continue
		}
		// descend through extensions only
		chainUp := []lib.Node{}
		for j := i; j < n; j++ {
			chainUp = append(chainUp, lib.Node{Str: lib.Bare(b.Chain[j].Str), Ext: b.Chain[j].Ext})
		}
		cur := hit
		stack := []*Ext{cur}
		for {
			var next *Ext
			for _, e := range onExt(cur) {
				if e.Pred.Eval(hdr, l) {
					next = e
					break
				}
			}
			if next == nil {
				break
			}
			cur = next
			stack = append(stack, cur)
		}
		var res lib.Res
		for k := len(stack) - 1; k >= 0; k-- {
			res.Chain = append(res.Chain, lib.Node{Str: stack[k].Mime, Ext: stack[k].Extension})
		}
		res.Chain = append(res.Chain, chainUp...)
		// an extension that re-uses one of the charset-bearing type names gets a
		// charset parameter computed from the input; the model does not predict its value
		res.BareLeaf = lib.IsCharsetName(cur.Mime)
		return res
	}
	return b
}

// pnode is one step of a node's path from the root of the enlarged tree.
type pnode struct {
	builtin lib.Node // built-in node, by (type, extension)
	ext     *Ext     // or an extension
}

func builtinPath(name string) ([]pnode, bool) {
	if name == "" {
		name = "application/octet-stream"
	}
	r := lib.LB(name)
	if r.Nil {
		return nil, false
	}
	var p []pnode
	for k := len(r.Chain) - 1; k >= 0; k-- {
		p = append(p, pnode{builtin: lib.Node{Str: lib.Bare(r.Chain[k].Str), Ext: r.Chain[k].Ext}})
	}
	return p, true
}

func extPath(e *Ext, byID map[int]*Ext) ([]pnode, bool) {
	var tail []pnode
	cur := e
	for {
		tail = append([]pnode{{ext: cur}}, tail...)
		if cur.ParentExt < 0 {
			break
		}
		p := byID[cur.ParentExt]
		if p == nil {
			return nil, false
		}
		cur = p
	}
	head, ok := builtinPath(cur.Parent)
	if !ok {
		return nil, false
	}
	return append(head, tail...), true
}

// before reports whether the node at path a is reached before the node at path
// b by the depth-first search Lookup performs (a node, then its children in
// detection order). order gives the registration index of extensions. known is
// false when the two paths part at two built-in siblings, whose relative order
// the model does not know.
func before(a, b []pnode, order map[*Ext]int) (first, known bool) {
	for i := 0; ; i++ {
		if i == len(a) {
			return true, true // a is b or an ancestor of b
		}
		if i == len(b) {
			return false, true
		}
		x, y := a[i], b[i]
		if x.ext == y.ext && x.builtin == y.builtin {
			continue
		}
		switch {
		case x.ext != nil && y.ext != nil:
			return order[x.ext] > order[y.ext], true // the newer registration sits in front
		case x.ext != nil:
			return true, true // every extension sits in front of the built-in children
		case y.ext != nil:
			return false, true
		}
		return false, false
	}
}

// Candidate is one acceptable answer of Lookup.
type Candidate struct {
	Res lib.Res
	Ext *Ext // nil: a built-in node
}

// Lookups lists the acceptable observations of Lookup(name) when exts are
// registered (in that order): the first node, in the order of Lookup's
// depth-first search, that carries the name as its type or as an alias. Usually
// one; two or more only when candidates part at built-in siblings.
func Lookups(name string, exts []*Ext) []Candidate {
	byID := map[int]*Ext{}
	order := map[*Ext]int{}
	for i, e := range exts {
		byID[e.ID] = e
		order[e] = i
	}
	type cand struct {
		c    Candidate
		path []pnode
	}
	var cs []cand
	if b := lib.LB(name); !b.Nil {
		if p, ok := builtinPath(name); ok {
			cs = append(cs, cand{Candidate{Res: b}, p})
		}
	}
	for _, e := range exts {
		for _, nm := range e.Names() {
			if nm == name {
				if p, ok := extPath(e, byID); ok {
					cs = append(cs, cand{Candidate{Res: ChainOf(e, byID), Ext: e}, p})
				}
				break
			}
		}
	}
	if len(cs) == 0 {
		return []Candidate{{Res: lib.Res{Nil: true}}}
	}
	// keep every candidate that no other candidate is known to precede
	var out []Candidate
	for i, a := range cs {
		beaten := false
		for j, b := range cs {
			if i == j {
				continue
			}
			if first, known := before(b.path, a.path, order); known && first {
				beaten = true
				break
			}
		}
		if !beaten {
			out = append(out, a.c)
		}
	}
	if len(out) == 0 {
		for _, c := range cs {
			out = append(out, c.c)
		}
	}
	return out
}

// Lookup is the first acceptable observation (see Lookups).
func Lookup(name string, exts []*Ext) (lib.Res, *Ext) {
	c := Lookups(name, exts)[0]
	return c.Res, c.Ext
}

// ChainOf is what a live extension node shows through its accessors: itself,
// its extension ancestors, the built-in node it hangs on and that node's ancestors.
func ChainOf(e *Ext, byID map[int]*Ext) lib.Res {
	var res lib.Res
	cur := e
	for {
		res.Chain = append(res.Chain, lib.Node{Str: cur.Mime, Ext: cur.Extension})
		if cur.ParentExt < 0 {
			break
		}
		p := byID[cur.ParentExt]
		if p == nil {
			return lib.Res{Nil: true}
		}
		cur = p
	}
	name := cur.Parent
	if name == "" {
		name = "application/octet-stream"
	}
	res.Chain = append(res.Chain, lib.LB(name).Chain...)
	return res
}
