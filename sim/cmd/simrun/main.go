// Command simrun is the simulation worker. It is built inside a scratch copy
// of the library (imports of sync, sync/atomic and os redirected to the shims)
// and driven by /verif/cmd/vcheck.
package main

import (
	"encoding/json"
	"flag"
	"fmt"
	"os"
	"strconv"
	"time"

	"github.com/gabriel-vasile/mimetype/internal/verifsim/core"
	"github.com/gabriel-vasile/mimetype/internal/verifsim/inputs"
	"github.com/gabriel-vasile/mimetype/internal/verifsim/lib"
	"github.com/gabriel-vasile/mimetype/internal/verifsim/work"
)

// Replay is the on-disk form of one failing (or sample) run.
type Replay struct {
	Property  string         `json:"property"`
	Seed      uint64         `json:"seed"`
	Subseed   string         `json:"subseed"`
	Class     string         `json:"class"`
	Message   string         `json:"message"`
	Race      bool           `json:"race_build"`
	Plan      *work.Plan     `json:"plan"`
	Decisions core.Decisions `json:"decisions"`
	LogHash   string         `json:"log_hash"`
	Failures  []work.Failure `json:"failures,omitempty"`
	Trace     []string       `json:"trace,omitempty"`
}

// Report is what a worker prints when it is done.
type Report struct {
	Property   string      `json:"property"`
	Worker     int         `json:"worker"`
	Race       bool        `json:"race_build"`
	Stats      *work.Stats `json:"stats"`
	Distinct   int         `json:"distinct"`
	DistinctKs []uint64    `json:"distinct_keys,omitempty"`
	SchedSigs  int         `json:"sched_sigs"`
	ConfSigs   int         `json:"conflict_sigs"`
	SchedKs    []uint64    `json:"sched_keys,omitempty"`
	ConfKs     []uint64    `json:"conflict_keys,omitempty"`
	Failures   []Replay    `json:"failures"`
	Exhausted  bool        `json:"exhausted"` // the worker's share of an enumeration was completed
	Tainted    bool        `json:"tainted"`
	NextIdx    int         `json:"next_idx"` // index of the first run this worker did not execute
	WallS      float64     `json:"wall_s"`
	MemoMisses int         `json:"reference_evaluations"`
	Hashes     []string    `json:"hashes,omitempty"`
	RaceCounts []int       `json:"race_counts,omitempty"`
	Harness    string      `json:"harness_fault,omitempty"`
	Rule       string      `json:"rule"`
}

func main() {
	prop := flag.String("prop", "", "property id")
	tier := flag.String("tier", "quick", "quick | thorough")
	seed := flag.Uint64("seed", 1, "VERIF_SEED")
	worker := flag.Int("worker", 0, "worker index")
	workers := flag.Int("workers", 1, "number of workers")
	runs := flag.Int("runs", 0, "maximum number of runs for this worker (0: until the share is exhausted)")
	first := flag.Int("first", 0, "index of the first run")
	budget := flag.Float64("budget-s", 0, "stop starting new runs after this many seconds (0: none)")
	replay := flag.String("replay", "", "replay file")
	trace := flag.Bool("trace", false, "replay: include the event trace")
	realDir := flag.String("realdir", "", "directory for real temporary files")
	hashes := flag.Bool("emit-hashes", false, "print per-run log and result hashes (determinism self-test)")
	maxFail := flag.Int("maxfail", 2, "stop after this many failing runs")
	keys := flag.Bool("emit-keys", false, "print the distinct-case keys (for merging across workers)")
	selfcheck := flag.Bool("selfcheck-inputs", false, "materialise every input family with extreme parameters")
	samples := flag.String("samples", os.Getenv("VERIF_SAMPLES"), "directory of real sample files (the repository's testdata)")
	reference := flag.Bool("reference", false, "serve baseline answers from a tree that is never extended (child of a worker)")
	flag.Parse()
	inputs.SampleDir = *samples
	inputs.CorpusFile = os.Getenv("VERIF_CORPUS")
	if *selfcheck {
		// every family with extreme parameters must materialise without panicking
		n := 0
		for _, fam := range inputs.Families {
			for _, N := range []int{-1, 0, 1, 2, 3, 7, 100, 5000} {
				for _, P := range []int{-1, 0, 1, 2, 50, 4097, 100000} {
					for V := 0; V < 9; V++ {
						for _, cut := range []int{0, 1, 16} {
							in := inputs.Input{Fam: fam, N: N, P: P, V: V, Cut: cut, Tail: V, Seed: uint64(N + P)}
							_ = in.Bytes()
							_ = in.Tag()
							n++
						}
					}
				}
			}
		}
		fmt.Println("inputs ok:", n)
		return
	}
	if *reference {
		lib.ReferenceWatchdog(120 * time.Second)
		lib.ServeReference()
		return
	}

	var where string
	core.StartWatchdog(60*time.Second, func() string { return where })
	lib.Init()
	if err := lib.StartReference(); err != nil {
		fmt.Fprintln(os.Stderr, "HARNESS: reference process:", err)
		os.Exit(2)
	}
	k := core.NewKernel()
	enc := json.NewEncoder(os.Stdout)

	if *replay != "" {
		b, err := os.ReadFile(*replay)
		if err != nil {
			fmt.Fprintln(os.Stderr, "HARNESS:", err)
			os.Exit(2)
		}
		var rp Replay
		if err := json.Unmarshal(b, &rp); err != nil {
			fmt.Fprintln(os.Stderr, "HARNESS: bad replay file:", err)
			os.Exit(2)
		}
		p := work.Props[rp.Property]
		if p == nil || rp.Plan == nil {
			fmt.Fprintln(os.Stderr, "HARNESS: replay file names no known property / has no plan")
			os.Exit(2)
		}
		sub, _ := strconv.ParseUint(rp.Subseed, 10, 64)
		where = "replay " + *replay
		rr, err := work.Run(k, rp.Plan, sub, &rp.Decisions, *realDir, *trace)
		if err != nil {
			fmt.Fprintln(os.Stderr, "HARNESS:", err)
			os.Exit(2)
		}
		if rr.Out.Class == "harness" || rr.Out.Class == "budget" {
			fmt.Fprintln(os.Stderr, "HARNESS:", rr.Out.Class, rr.Out.Msg)
			os.Exit(2)
		}
		st := work.NewStats()
		fails := p.Check(rr, st)
		out := Replay{Property: rp.Property, Seed: rp.Seed, Subseed: rp.Subseed, Race: core.RaceEnabled, Plan: rp.Plan,
			Decisions: rr.Out.Decisions, LogHash: fmt.Sprintf("%016x", rr.Out.LogHash), Failures: fails}
		if len(fails) > 0 {
			out.Class, out.Message = fails[0].Class, fails[0].Msg
		}
		if *trace {
			for _, e := range rr.Out.Trace {
				out.Trace = append(out.Trace, e.String())
			}
		}
		enc.Encode(out)
		return
	}

	p := work.Props[*prop]
	if p == nil {
		fmt.Fprintln(os.Stderr, "HARNESS: unknown property", *prop)
		os.Exit(2)
	}
	start := time.Now()
	st := work.NewStats()
	rep := &Report{Property: *prop, Worker: *worker, Race: core.RaceEnabled, Stats: st, Rule: p.Rule()}
	ph := core.MixString(0, *prop)
	for idx := *first; ; idx++ {
		rep.NextIdx = idx
		if *runs > 0 && idx-*first >= *runs {
			break
		}
		if *budget > 0 && time.Since(start).Seconds() > *budget {
			break
		}
		plan := p.Plan(*seed, *tier, *worker, *workers, idx)
		if plan == nil {
			rep.Exhausted = true
			break
		}
		sub := core.Mix(*seed, ph, uint64(*worker), uint64(idx))
		where = fmt.Sprintf("%s worker %d run %d subseed %d", *prop, *worker, idx, sub)
		rr, err := work.Run(k, plan, sub, nil, *realDir, false)
		if err != nil {
			rep.Harness = err.Error()
			break
		}
		if rr.Out.Class == "harness" {
			rep.Harness = rr.Out.Class + ": " + rr.Out.Msg
			break
		}
		if rr.Out.Class == "budget" {
			// an unusually long run: not judged (counted), and the process cannot run another simulation
			st.Inconclusive++
			st.Probe("run_abandoned_step_budget")
			if os.Getenv("VERIF_DEBUG") != "" {
				b, _ := json.Marshal(plan)
				fmt.Fprintf(os.Stderr, "DEBUG budget: %s: %s\n%s\n", where, rr.Out.Msg, b)
			}
			rep.Tainted = true
			rep.NextIdx = idx + 1
			break
		}
		st.AddOutcome(rr.Out)
		fails := p.Check(rr, st)
		if *hashes {
			h := uint64(0)
			for ti := range rr.W.Res {
				for oi := range rr.W.Res[ti] {
					r := &rr.W.Res[ti][oi]
					h = core.MixString(h, r.R.Key()+"|"+r.ErrKind+fmt.Sprint(r.ErrNil, r.ErrInjected))
				}
			}
			nonRace := 0
			for _, f := range fails {
				if f.Class != "race" {
					nonRace++
				}
			}
			// race-report counts are informational: ThreadSanitizer may miss (never invent) a report
			rep.Hashes = append(rep.Hashes, fmt.Sprintf("%d:%016x:%016x:%d", idx, rr.Out.LogHash, h, nonRace))
			rep.RaceCounts = append(rep.RaceCounts, rr.Out.Races)
		}
		if len(fails) > 0 {
			rep.Failures = append(rep.Failures, Replay{Property: *prop, Seed: *seed, Subseed: strconv.FormatUint(sub, 10),
				Class: fails[0].Class, Message: fails[0].Msg, Race: core.RaceEnabled, Plan: plan, Decisions: rr.Out.Decisions,
				LogHash: fmt.Sprintf("%016x", rr.Out.LogHash), Failures: fails})
		}
		if rr.Out.Tainted {
			rep.Tainted = true
			rep.NextIdx = idx + 1
			break
		}
		if len(rep.Failures) >= *maxFail {
			break
		}
	}
	rep.Distinct = len(st.Distinct)
	rep.SchedSigs, rep.ConfSigs = len(st.SchedSigs), len(st.ConfSigs)
	if *keys {
		rep.DistinctKs = work.Keys(st.Distinct)
		rep.SchedKs = work.Keys(st.SchedSigs)
		rep.ConfKs = work.Keys(st.ConfSigs)
	}
	rep.WallS = time.Since(start).Seconds()
	rep.MemoMisses = lib.MemoMisses
	enc.Encode(rep)
	if rep.Harness != "" {
		fmt.Fprintln(os.Stderr, "HARNESS:", rep.Harness)
		os.Exit(2)
	}
}
