package work

import (
	"fmt"
	"mime"

	"github.com/gabriel-vasile/mimetype/internal/verifsim/core"
	"github.com/gabriel-vasile/mimetype/internal/verifsim/lib"
	"github.com/gabriel-vasile/mimetype/internal/verifsim/model"
	"github.com/gabriel-vasile/mimetype/internal/verifsim/simio"
)

// state is the part of the library's global state the model tracks.
type state struct {
	limit uint32
	exts  []*model.Ext
}

// stateEvent is one completed state-changing operation.
type stateEvent struct {
	task, op int
	inv, ret int
	after    state
}

// timeline lists the state-changing operations of one task in program order,
// with the state in force after each. Valid as "the" timeline only when all
// writers live in that task.
func timeline(rr *RunResult, ti int, init state) []stateEvent {
	var evs []stateEvent
	cur := init
	if ti >= len(rr.Plan.Tasks) {
		return nil
	}
	for oi, op := range rr.Plan.Tasks[ti] {
		res := &rr.W.Res[ti][oi]
		inv, ret := core.Seq(rr.Out.Invoke[ti], oi), core.Seq(rr.Out.Return[ti], oi)
		if inv < 0 && (op.Kind == "setlimit" || op.Kind == "extend") {
			break // the task never got that far
		}
		switch op.Kind {
		case "setlimit":
			cur = state{limit: op.Limit, exts: cur.exts}
		case "extend":
			if !res.Done || res.Skipped || op.Ext == nil {
				continue
			}
			cur = state{limit: cur.limit, exts: append(append([]*model.Ext(nil), cur.exts...), op.Ext)}
		default:
			continue
		}
		evs = append(evs, stateEvent{task: ti, op: oi, inv: inv, ret: ret, after: cur})
	}
	return evs
}

// statesDuring returns every state that was in force at some instant of the
// window [inv, ret] of an operation of task ti, given the single writer task wt.
func statesDuring(evs []stateEvent, init state, wt, ti, oi, inv, ret int) []state {
	if ret < 0 {
		ret = int(^uint(0) >> 1)
	}
	// lo: events certainly before the window; hi: events possibly before its end
	lo, hi := 0, 0
	for _, e := range evs {
		if ti == wt {
			if e.op < oi {
				lo++
				hi++
			}
			continue
		}
		if e.ret >= 0 && e.ret < inv {
			lo++
		}
		if e.inv < ret {
			hi++
		}
	}
	var out []state
	for k := lo; k <= hi; k++ {
		if k == 0 {
			out = append(out, init)
		} else {
			out = append(out, evs[k-1].after)
		}
	}
	return out
}

// expectation is one acceptable answer of a detection.
type expectation struct {
	bare    bool // compare the value's own string without parameters
	key     string
	wantErr bool
	corner  bool // both the error answer and the plain answer are acceptable
	okKey   string
}

func expectDetect(op *Op, x []byte, st state) expectation {
	w := model.Walk(x, st.limit, st.exts)
	ok, bare := w.Key(), w.BareLeaf
	if op.Kind == "detect" {
		return expectation{key: ok, bare: bare}
	}
	switch op.FileKind {
	case "enoent", "eacces", "dir", "real-missing", "real-dir":
		return expectation{key: octet, wantErr: true}
	}
	d := simio.NoFault()
	if op.Del != nil {
		d = *op.Del
	}
	reach, corner := FaultReach(d, len(x), st.limit)
	if reach && op.Kind == "file" && d.FaultAt == len(x) {
		// A file that fails exactly where its content ends: an implementation that
		// learnt the size from Stat never reads there. Both outcomes are accepted.
		reach, corner = false, true
	}
	if reach {
		return expectation{key: octet, wantErr: true}
	}
	if op.Kind == "file" && d.FaultAt >= 0 && d.FaultAt <= len(x) {
		// a file failing beyond the header: how much DetectFile reads from a file it
		// opened itself is not stated, so the failure may or may not surface
		corner = true
	}
	if corner && op.Kind == "reader" {
		corner = false // all header bytes arrived: Detect's answer (strict for readers, see C05)
	}
	return expectation{key: ok, corner: corner, okKey: ok, bare: bare}
}

func (e expectation) String() string {
	if e.wantErr {
		return "application/octet-stream with the read error"
	}
	if e.corner {
		return e.key + " (or application/octet-stream with the read error)"
	}
	return e.key
}

func (e expectation) matches(op *Op, res *OpRes) bool {
	got := res.R.Key()
	if e.bare {
		got = res.R.BareKey()
	}
	isErr := !res.ErrNil && got == octet && op.Kind != "detect"
	if e.wantErr {
		return isErr
	}
	plain := got == e.key && (op.Kind == "detect" || res.ErrNil)
	if e.corner {
		return plain || isErr
	}
	return plain
}

func describe(ti, oi int, op *Op) string {
	return fmt.Sprintf("t%d op%d %s", ti, oi, op)
}

// lookupMatches judges an observed Lookup against one state.
func lookupMatches(op *Op, res *OpRes, st state) (bool, string) {
	cands := model.Lookups(op.Name, st.exts)
	why := ""
	for _, c := range cands {
		ok, w := lookupMatchesOne(res, c)
		if ok {
			return true, w
		}
		if why != "" {
			why += " or "
		}
		why += w
	}
	return false, why
}

// mediaType is the "type/subtype" section of a MIME string as the standard library parses it.
func mediaType(s string) string {
	t, _, _ := mime.ParseMediaType(s)
	return t
}

func lookupMatchesOne(res *OpRes, c model.Candidate) (bool, string) {
	want, ext := c.Res, c.Ext
	if res.R.Key() != want.Key() {
		return false, want.Key()
	}
	if ext != nil {
		for i, got := range res.Is {
			// Is compares "type/subtype" only: parameters, surrounding white space and
			// letter case of the query and of the format's own type are ignored
			q := mediaType(res.IsNames[i])
			wantIs := q == mediaType(ext.Mime)
			for _, nm := range ext.Aliases {
				wantIs = wantIs || nm == q
			}
			if got != wantIs {
				return false, fmt.Sprintf("%s with Is(%q)=%v", want.Key(), res.IsNames[i], wantIs)
			}
		}
	}
	return true, want.Key()
}

// pristineNode guards against a live node leaking into results: a detection
// result must be a snapshot. (Observation equality over time is checked by "use" ops.)
var _ = lib.Bare
