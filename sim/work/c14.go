package work

import (
	"fmt"
	"strings"

	"github.com/gabriel-vasile/mimetype/internal/verifsim/core"
	"github.com/gabriel-vasile/mimetype/internal/verifsim/inputs"
	"github.com/gabriel-vasile/mimetype/internal/verifsim/lib"
	"github.com/gabriel-vasile/mimetype/internal/verifsim/model"
)

// C14: extensions take priority, stay inside their parent, disturb nothing
// else. Histories of Extend calls interleaved with detections, lookups and
// limit changes, judged operation by operation against the reference model.

type c14 struct{}

func init() { Props["C14"] = &c14{} }

func (c *c14) Rule() string {
	return "seeded histories of 1-10 Extend calls (root, built-ins at depth 1-3 incl. lookups by alias, earlier extensions up to chains of 4) with overlapping DSL predicates (prefix/contains/length/limit clauses modelled on the run's inputs), each followed by a battery of detections through the three entry points over 4-8 inputs, lookups of every registered name/alias and of built-ins, and re-observation of values returned earlier; templates: crowds (3-40 extensions on one parent), chains (2-6 nested accepting extensions), free histories - some with re-registrations (also identical ones), with extensions named like the charset-bearing built-ins, with colliding names (type+extension shared with a built-in or another extension, aliases equal to another format's type; Lookup judged by the depth-first order of the enlarged tree), with a trap detector that panics on poison inputs while the caller recovers (that call is not judged, every other one is), with limits up to 128 MiB; three out of four histories run on one task (exact expected value per operation), one out of four issues the Extend calls from one task while 1-3 others detect and look up (expected value: the model's answer for some extension prefix in force during the call). Non-trivial = at least one extension detector accepted an input in the run; distinct = distinct (history shape, accepting-extension sequence) hashes"
}

var c14Limits = []uint32{3072, 3072, 0, 16, 64, 5, 300}

// edgeLimits are the limits at the edges of the 32-bit range. A limit-sized buffer cannot be
// afforded there, so a run under one of them detects from byte slices only.
var edgeLimits = []uint32{1<<31 - 1, 1 << 31, 1<<32 - 2, 1<<32 - 1, 1<<32 - 1}

func (c *c14) Plan(seed uint64, tier string, worker, workers, idx int) *Plan {
	p := c.plan(seed, tier, worker, workers, idx)
	r := core.NewRand(core.Mix(seed, 0xed9e, uint64(worker), uint64(idx)))
	if !r.Chance(1, 16) {
		return p
	}
	// one of the run's limits (wherever it occurs: initial value, SetLimit calls, limit
	// clauses of predicates) becomes an edge value; readers and files become byte slices
	cand := []uint32{p.Limit0}
	visit := func(f func(op *Op)) {
		for i := range p.Pre {
			f(&p.Pre[i])
		}
		for ti := range p.Tasks {
			for oi := range p.Tasks[ti] {
				f(&p.Tasks[ti][oi])
			}
		}
	}
	visit(func(op *Op) {
		if op.Kind == "setlimit" {
			cand = append(cand, op.Limit)
		}
	})
	from, to := cand[r.Intn(len(cand))], edgeLimits[r.Intn(len(edgeLimits))]
	if from >= 1<<31 {
		return p
	}
	if p.Limit0 == from {
		p.Limit0 = to
	}
	done := map[*model.Ext]bool{}
	visit(func(op *Op) {
		if op.Kind == "setlimit" && op.Limit == from {
			op.Limit = to
		}
		if e := op.Ext; e != nil && !done[e] {
			done[e] = true
			if e.Pred.LimitEq == int64(from)+1 {
				e.Pred.LimitEq = int64(to) + 1
			}
			if e.Pred.LimitNe == int64(from)+1 {
				e.Pred.LimitNe = int64(to) + 1
			}
		}
		if (op.Kind == "reader" || op.Kind == "file") && op.In != nil && op.FileKind != "enoent" && op.FileKind != "eacces" && op.FileKind != "real-missing" {
			op.Kind, op.Del, op.Wrap, op.FileKind, op.StatSize, op.NameExt = "detect", nil, "", "", 0, ""
		}
	})
	return p
}

func (c *c14) plan(seed uint64, tier string, worker, workers, idx int) *Plan {
	r := core.NewRand(core.Mix(seed, 0xc14, uint64(worker), uint64(idx)))
	p := &Plan{Prop: "C14", Limit0: c14Limits[r.Intn(len(c14Limits))], MaxSteps: 400000}
	p.Pool = []string{"lifo", "adversarial", "steal", "fifo"}[r.Intn(4)]
	p.Sched = core.SchedSpec{Kind: []string{"random", "pct", "rtc", "random", "pct", "rtc", "hold"}[r.Intn(7)], D: r.Range(1, 3), Preempt: 50 + r.Intn(300), Horizon: 400}
	universe := pickUniverse(r, r.Range(4, 8))
	// two of the repository's own samples (any format): extensions may hang anywhere on their detection paths
	for i := 0; i < 2; i++ {
		universe = append(universe, inputs.Input{Fam: "corpus", V: r.Intn(1 << 12)})
	}
	if r.Chance(1, 3) {
		// a relative of the first one: another sample whose path shares the first two levels below the root
		first := lib.B(universe[len(universe)-2].Bytes(), 0)
		if n := len(first.Chain); n >= 3 {
			for try := 0; try < 24; try++ {
				c := inputs.Input{Fam: "corpus", V: r.Intn(1 << 12)}
				b := lib.B(c.Bytes(), 0)
				if m := len(b.Chain); m >= 3 && b.Chain[m-2] == first.Chain[n-2] && (n < 4 || m < 4 || b.Chain[m-3] == first.Chain[n-3]) && b.Key() != first.Key() {
					universe[len(universe)-1] = c
					break
				}
			}
		}
	}
	other := c14Limits[r.Intn(len(c14Limits))]
	if r.Chance(1, 12) {
		if r.Chance(1, 2) {
			p.Limit0 = bigLimit(r)
		} else {
			other = bigLimit(r)
		}
	}
	g := &extGen{r: r, universe: universe, limits: []uint32{p.Limit0, other}}
	if r.Chance(1, 2) {
		g.arrays = []int{r.Range(3, 8)}
		g.arrUsed = []int{0}
		p.Arrays = g.arrays
	}
	nExt := r.Range(1, 10)
	p.Slots = 6
	template := r.Intn(30) // 0-2 crowd, 3-6 chain, 7-9 kin, 10-12 fork, else free histories
	g.charsetNamesOn = template >= 13 && r.Chance(1, 3)
	if template >= 13 && r.Chance(1, 4) {
		g.setCollide()
	}
	slot := 0
	battery := func(ops []Op, count int, withFaults bool) []Op {
		for i := 0; i < count; i++ {
			in := universe[r.Intn(len(universe))]
			op := Op{In: &in}
			switch e := r.Intn(10); {
			case e < 7:
				op.Kind = "detect"
			case e < 9:
				op.Kind = "reader"
				op.Del = randDelivery(r, len(in.Bytes()), 0)
			default:
				op.Kind = "file"
				op.Del = randDelivery(r, len(in.Bytes()), 0)
			}
			if r.Chance(1, 4) {
				slot = slot%p.Slots + 1
				op.Slot = slot
			}
			ops = append(ops, op)
		}
		return ops
	}
	lookups := func(ops []Op, all bool) []Op {
		for _, e := range g.made {
			if !all && !r.Chance(1, 3) {
				continue
			}
			names := g.lookupNames(e)
			for _, nm := range names {
				if all || r.Chance(1, 2) {
					op := Op{Kind: "lookup", Name: nm, Ext: e}
					if r.Chance(1, 5) {
						slot = slot%p.Slots + 1
						op.Slot = slot
					}
					ops = append(ops, op)
				}
			}
		}
		if nm := parents[2+r.Intn(len(parents)-2)].Name; r.Chance(1, 2) {
			ops = append(ops, Op{Kind: "lookup", Name: nm})
		}
		if r.Chance(1, 6) {
			ops = append(ops, Op{Kind: "lookup", Name: fmt.Sprintf("x-verif/e%d", g.next+3)}) // not registered (yet)
		}
		return ops
	}
	uses := func(ops []Op) []Op {
		if slot > 0 && r.Chance(1, 2) {
			ops = append(ops, Op{Kind: "use", Slot: 1 + r.Intn(slot)})
		}
		return ops
	}
	if template < 3 {
		// a crowd: many extensions on ONE parent (slice growth, counters, small fixed
		// arrays), several of them accepting the same input; the newest accepting one wins
		in := universe[r.Intn(len(universe))]
		x := lib.Header(in.Bytes(), p.Limit0)
		path := pathOf(in.Fam)
		parent := path[r.Intn(len(path))]
		var ops []Op
		n := []int{3, 5, 8, 9, 12, 16, 17, 24, 33, 40}[r.Intn(10)]
		for k := 0; k < n; k++ {
			var e *model.Ext
			if r.Chance(1, 2) {
				e = g.accepting(parent, x)
			} else {
				e = g.ext()
				e.Parent, e.ParentExt = parent, -1
				e.Mime = fmt.Sprintf("x-verif/e%d", e.ID) // crowds use unique types
			}
			ops = append(ops, Op{Kind: "extend", Ext: e})
			if k == n-1 || r.Chance(1, 3) {
				ops = append(ops, Op{Kind: "detect", In: &in})
				other := universe[r.Intn(len(universe))]
				ops = append(ops, Op{Kind: "detect", In: &other})
				if g.mayLookup(e.Mime) {
					ops = append(ops, Op{Kind: "lookup", Name: e.Mime, Ext: e})
				}
				old := g.made[r.Intn(len(g.made))]
				if names := g.lookupNames(old); old.Mime != e.Mime && len(names) > 0 {
					ops = append(ops, Op{Kind: "lookup", Name: names[r.Intn(len(names))], Ext: old})
				}
			}
		}
		ops = battery(ops, r.Range(2, 6), false)
		p.Tasks = [][]Op{ops}
		return p
	}
	if template < 7 {
		// a chain of nested accepting extensions hanging at some level of one input's
		// path: verdicts many levels below the root, long ancestor chains
		in := universe[r.Intn(len(universe))]
		x := lib.Header(in.Bytes(), p.Limit0)
		path := pathOf(in.Fam)
		var ops []Op
		var last *model.Ext
		for k, n := 0, r.Range(2, 6); k < n; k++ {
			var e *model.Ext
			if last == nil {
				e = g.accepting(path[r.Intn(len(path))], x)
			} else {
				e = g.acceptingOn("", last, x)
			}
			last = e
			ops = append(ops, Op{Kind: "extend", Ext: e})
			ops = append(ops, Op{Kind: "detect", In: &in})
			if r.Chance(1, 2) {
				ops = append(ops, Op{Kind: "reader", In: &in, Del: randDelivery(r, len(in.Bytes()), 0)})
			}
			if g.mayLookup(e.Mime) {
				ops = append(ops, Op{Kind: "lookup", Name: e.Mime, Ext: e})
			}
		}
		ops = battery(ops, r.Range(1, 4), false)
		p.Tasks = [][]Op{ops}
		return p
	}
	if template < 10 {
		// kin: two of the repository's samples whose detection paths share their upper
		// levels; accepting extensions on the deepest node of each path and on nodes
		// further up, in varying order: registrations on neighbouring subtrees must not
		// disturb each other (a cache shared between siblings, an index keyed too coarsely)
		nu := len(universe)
		ins := []inputs.Input{universe[nu-2], universe[nu-1]}
		var ops []Op
		type spot struct {
			name string
			in   *inputs.Input
		}
		var spots []spot
		for i := range ins {
			names := lookupablePath(ins[i].Bytes())
			for d, nm := range names {
				if nm != "" && (d == 0 || r.Chance(1, 3)) {
					spots = append(spots, spot{nm, &ins[i]})
				}
			}
		}
		for i := len(spots) - 1; i > 0; i-- {
			j := r.Intn(i + 1)
			spots[i], spots[j] = spots[j], spots[i]
		}
		for _, sp := range spots {
			x := lib.Header(sp.in.Bytes(), p.Limit0)
			e := g.accepting(sp.name, x)
			if r.Chance(1, 4) {
				e.Pred = model.Pred{Never: true}
			}
			ops = append(ops, Op{Kind: "extend", Ext: e})
			for i := range ins {
				ops = append(ops, Op{Kind: "detect", In: &ins[i]})
			}
			if g.mayLookup(e.Mime) && r.Chance(1, 2) {
				ops = append(ops, Op{Kind: "lookup", Name: e.Mime, Ext: e})
			}
		}
		ops = battery(ops, r.Range(1, 4), false)
		ops = uses(ops)
		p.Tasks = [][]Op{ops}
		return p
	}
	if template < 13 {
		// fork: a small TREE of extensions - N on some node of a detection path (often deep),
		// two or three branches on N that tell two inputs apart, a sub-extension in each
		// branch, sometimes a third level - registered in varying orders. Cousins must not
		// disturb each other (cached ancestor lists, per-branch state keyed by depth).
		nu := len(universe)
		in1, in2 := universe[nu-2], universe[nu-1]
		if r.Chance(1, 3) {
			in1, in2 = universe[r.Intn(nu)], universe[r.Intn(nu)]
		}
		x1, x2 := lib.Header(in1.Bytes(), p.Limit0), lib.Header(in2.Bytes(), p.Limit0)
		// the deepest node both paths share (by name), else any node of the first path
		spot := ""
		n1, n2 := lookupablePath(in1.Bytes()), lookupablePath(in2.Bytes())
		for _, a := range n1 {
			for _, b := range n2 {
				if spot == "" && a != "" && a == b {
					spot = a
				}
			}
		}
		if spot == "" || r.Chance(1, 4) {
			spot = ""
			for _, a := range n1 {
				if a != "" && (spot == "" || r.Chance(1, 2)) {
					spot = a
				}
			}
		}
		only := func(x, other []byte) model.Pred { // accepts x, rejects other when they can be told apart
			for k := 1; k <= 32 && k <= len(x); k++ {
				if k > len(other) || !bytesEqual(x[:k], other[:k]) {
					return model.Pred{Prefix: hexOf(x[:k])}
				}
			}
			if len(x) != len(other) {
				if len(x) > len(other) {
					return model.Pred{MinLen: len(x)}
				}
				return model.Pred{MaxLen: len(x)}
			}
			return model.Pred{}
		}
		N := g.accepting(spot, x1)
		N.Pred = model.Pred{}
		A := g.acceptingOn("", N, x1)
		A.Pred = only(x1, x2)
		B := g.acceptingOn("", N, x2)
		B.Pred = only(x2, x1)
		a := g.acceptingOn("", A, x1)
		a.Pred = model.Pred{}
		b := g.acceptingOn("", B, x2)
		b.Pred = model.Pred{}
		steps := []*model.Ext{A, B, a, b}
		if r.Chance(1, 2) {
			steps = []*model.Ext{A, a, B, b}
		}
		if r.Chance(1, 3) {
			c := g.acceptingOn("", a, x1)
			c.Pred = model.Pred{}
			steps = append(steps, c)
		}
		if r.Chance(1, 3) {
			C := g.acceptingOn("", N, x2)
			C.Pred = model.Pred{Never: true}
			steps = append(steps, C)
		}
		ops := []Op{{Kind: "extend", Ext: N}}
		for _, e := range steps {
			ops = append(ops, Op{Kind: "extend", Ext: e})
			ops = append(ops, Op{Kind: "detect", In: &in1}, Op{Kind: "detect", In: &in2})
			if g.mayLookup(e.Mime) && r.Chance(1, 2) {
				ops = append(ops, Op{Kind: "lookup", Name: e.Mime, Ext: e})
			}
		}
		ops = battery(ops, r.Range(1, 3), false)
		ops = uses(ops)
		p.Tasks = [][]Op{ops}
		return p
	}
	if !r.Chance(1, 4) {
		// one task: exact expectations
		var ops []Op
		ops = battery(ops, r.Range(1, 4), false)
		trapAt, trapV := -1, r.Intn(4)
		if r.Chance(1, 5) {
			trapAt = r.Intn(nExt)
		}
		poison := func(ops []Op) []Op {
			in := inputs.Input{Fam: "poison", V: trapV, N: r.Range(0, 40)}
			op := Op{Kind: []string{"detect", "detect", "reader", "file"}[r.Intn(4)], In: &in}
			if op.Kind != "detect" {
				op.Del = randDelivery(r, len(in.Bytes()), 0)
			}
			return append(ops, op)
		}
		for i := 0; i < nExt; i++ {
			if i == trapAt {
				// a detector with a bug: it panics on some inputs; the caller recovers and carries on
				p.Traps = true
				t := g.trap(trapV)
				if g.pendingTrapParent != nil {
					ops = append(ops, Op{Kind: "extend", Ext: g.pendingTrapParent})
					g.pendingTrapParent = nil
				}
				ops = append(ops, Op{Kind: "extend", Ext: t})
				ops = poison(ops)
			}
			if p.Traps && r.Chance(1, 2) {
				ops = poison(ops)
			}
			e := g.ext()
			ops = append(ops, Op{Kind: "extend", Ext: e})
			if r.Chance(1, 6) {
				ops = append(ops, Op{Kind: "setlimit", Limit: g.limits[r.Intn(2)]})
			}
			ops = battery(ops, r.Range(2, len(universe)+1), false)
			n0 := len(ops)
			ops = lookups(ops, false)
			// the extension just registered is always looked up by its type
			if (len(ops) == n0 || r.Chance(1, 2)) && g.mayLookup(e.Mime) {
				ops = append(ops, Op{Kind: "lookup", Name: e.Mime, Ext: e})
			}
			ops = uses(ops)
			if slot > 0 && r.Chance(1, 6) {
				// Extend on something a detection returned: registers nothing, disturbs nothing
				id := 9000 + g.next
				g.next++
				x := universe[r.Intn(len(universe))].Bytes()
				re := &model.Ext{ID: id, ParentExt: -1, Arr: -1, Mime: fmt.Sprintf("x-verif/r%d", id), Extension: fmt.Sprintf(".r%d", id)}
				if len(x) > 0 && r.Chance(1, 2) {
					re.Pred.Contains = 1 + int(x[r.Intn(len(x))])
				}
				ops = append(ops, Op{Kind: "extend-result", Slot: 1 + r.Intn(slot), Ext: re, Arr: r.Intn(2)})
				ops = battery(ops, r.Range(1, 3), false)
			}
			if len(p.Arrays) > 0 && r.Chance(1, 3) {
				ops = append(ops, Op{Kind: "readarr", Arr: 0})
			}
		}
		if r.Chance(1, 5) {
			// a detector that consults the caller's own switch: the same bytes under the same
			// limit, before and after the switch changes, with nothing in between
			in := universe[r.Intn(len(universe))]
			x := in.Bytes()
			parent := ""
			if b := lib.B(x, g.limits[0]); !b.Nil && len(b.Chain) > 1 && r.Chance(1, 2) {
				if nm := lib.Bare(b.Chain[r.Intn(len(b.Chain)-1)].Str); !lib.IsCharsetName(nm) && !g.ambiguous[nm] && !g.dupName[nm] && !lib.LB(nm).Nil {
					parent = nm
				}
			}
			e := g.accepting(parent, x)
			v := r.Intn(2)
			e.Pred.FlagEq = 1 + v
			ops = append(ops, Op{Kind: "extend", Ext: e}, Op{Kind: "detect", In: &in})
			for i, n := 0, r.Range(1, 3); i < n; i++ {
				v = 1 - v
				ops = append(ops, Op{Kind: "setflag", Limit: uint32(v)})
				op := Op{Kind: []string{"detect", "detect", "reader", "file"}[r.Intn(4)], In: &in}
				if op.Kind != "detect" {
					op.Del = randDelivery(r, len(x), 0)
				}
				ops = append(ops, op)
				if r.Chance(1, 3) {
					ops = battery(ops, r.Range(1, 3), false)
				}
			}
		}
		if g.collideOn && len(g.builtinDup) > 0 && r.Chance(1, 2) {
			// a namesake with offspring: an extension on the root that carries a built-in
			// format's type and file extension (the root's own among them), reachable through
			// an alias of its own only, and a sub-extension registered through that alias;
			// both accept one of the run's inputs
			in := universe[r.Intn(len(universe))]
			x := in.Bytes()
			nm := g.builtinDup[r.Intn(len(g.builtinDup))]
			if lb := lib.LB(nm); !lb.Nil && len(lb.Chain) > 0 {
				e1 := g.accepting("", x)
				e1.Mime, e1.Extension = nm, lb.Chain[0].Ext
				alias := fmt.Sprintf("x-verif/n%d", e1.ID)
				e1.Aliases = []string{alias}
				e2 := g.acceptingOn("", e1, x)
				e2.Parent = alias
				ops = append(ops, Op{Kind: "extend", Ext: e1}, Op{Kind: "extend", Ext: e2}, Op{Kind: "detect", In: &in})
				ops = battery(ops, r.Range(2, len(universe)+1), false)
				ops = append(ops, Op{Kind: "lookup", Name: alias, Ext: e1}, Op{Kind: "lookup", Name: e2.Mime, Ext: e2})
			}
		}
		p.Tasks = [][]Op{ops}
		return p
	}
	// concurrent: task 0 extends, the others detect and look up
	var w []Op
	pre := r.Intn(3)
	for i := 0; i < pre; i++ {
		p.Pre = append(p.Pre, Op{Kind: "extend", Ext: g.ext()})
	}
	for i := 0; i < nExt; i++ {
		w = append(w, Op{Kind: "extend", Ext: g.ext()})
		if r.Chance(1, 3) {
			w = battery(w, 1, false)
		}
	}
	p.Tasks = [][]Op{w}
	for t, n := 0, r.Range(1, 3); t < n; t++ {
		var ops []Op
		for round, m := 0, r.Range(1, 3); round < m; round++ {
			ops = battery(ops, r.Range(2, 6), false)
			ops = lookups(ops, false)
			ops = uses(ops)
		}
		p.Tasks = append(p.Tasks, ops)
	}
	return p
}

func (c *c14) Check(rr *RunResult, st *Stats) []Failure {
	fs := KernelFailures(rr, false)
	if rr.Out.Class == "panic" && rr.Plan.Traps && strings.HasPrefix(rr.Out.Msg, "user-supplied code panicked") {
		// the trap detector's panic came up on a goroutine of the library's own (where
		// nobody can recover it): what the library does with a panicking detector is not stated
		st.Probe("detector_panic_on_library_goroutine_not_judged")
		st.Inconclusive++
		return nil
	}
	if rr.Out.Class == "deadlock" && rr.Plan.Traps {
		// A lock still held after a user-supplied detector panicked (no deferred
		// unlock) blocks the next writer. Whether locks survive a panicking detector
		// is stated nowhere: not a verdict.
		for ti := range rr.W.Res {
			for oi := range rr.W.Res[ti] {
				if rr.W.Res[ti][oi].Panicked {
					st.Probe("blocked_after_detector_panic_not_judged")
					st.Inconclusive++
					return nil
				}
			}
		}
	}
	// Writes into memory the caller lent (alias backing arrays, input buffers)
	// are C06's and C04's subject; here only their functional consequences
	// (a corrupted alias no longer found by Lookup) count.
	fs = append(fs, PreFailures(rr)...)
	if rr.Out.Class != "" {
		return fs
	}
	init := state{limit: rr.Plan.Limit0}
	init.exts = append(init.exts, rr.W.PreExts...)
	evs := timeline(rr, 0, init)
	shape := uint64(len(rr.Plan.Tasks))
	accepted := false
	for ti, ops := range rr.Plan.Tasks {
		model.Flag.Store(0)
		for oi := range ops {
			op := &ops[oi]
			res := &rr.W.Res[ti][oi]
			if !res.Done {
				fs = append(fs, Failure{"no-return", describe(ti, oi, op) + " did not return"})
				continue
			}
			st.Ops++
			if op.Kind == "setflag" {
				// only one-task histories have them: the switch's value during every later
				// operation of the task is the one set here
				if len(rr.Plan.Tasks) != 1 {
					fs = append(fs, Failure{"harness", "setflag in a history with several tasks"})
				}
				model.Flag.Store(int32(op.Limit))
				st.Probe("detector_switch_flipped")
				continue
			}
			inv, ret := core.Seq(rr.Out.Invoke[ti], oi), core.Seq(rr.Out.Return[ti], oi)
			states := statesDuring(evs, init, 0, ti, oi, inv, ret)
			if ti != 0 && op.Kind == "setlimit" {
				fs = append(fs, Failure{"harness", "C14 plans keep every writer in task 0"})
			}
			if res.Panicked && !rr.Plan.Unjudged(op) {
				fs = append(fs, Failure{"panic", describe(ti, oi, op) + ": a detector panic came out of an operation that cannot reach the panicking detector"})
				continue
			}
			if rr.Plan.Unjudged(op) {
				// a poison input while a trap detector is registered: what this call returns is
				// not stated; that every other operation is unaffected is
				st.Probe("poison_detection_unjudged")
				if res.Panicked {
					st.Probe("detector_panic_recovered_by_caller")
				}
				continue
			}
			switch op.Kind {
			case "detect", "reader", "file":
				x := rr.W.Bytes[ti][oi]
				if res.R.Nil {
					fs = append(fs, Failure{"nil-result", describe(ti, oi, op) + ": nil MIME"})
					continue
				}
				ok := false
				var wants []string
				for _, s := range states {
					e := expectDetect(op, x, s)
					if e.matches(op, res) {
						ok = true
						break
					}
					wants = append(wants, fmt.Sprintf("[limit %d, %d extension(s)] %s", s.limit, len(s.exts), e))
				}
				if !ok {
					fs = append(fs, Failure{"mismatch", fmt.Sprintf("%s: got %s err=%q; the model expects %v", describe(ti, oi, op), res.R.Key(), res.ErrText, wants)})
				}
				if len(res.R.Chain) > 0 && len(res.R.Chain[0].Str) > 8 && res.R.Chain[0].Str[:8] == "x-verif/" {
					accepted = true
					st.Probe("extension_verdict")
					shape = core.MixString(shape, res.R.Key())
					if len(res.R.Chain) >= 3 && len(res.R.Chain[1].Str) > 8 && res.R.Chain[1].Str[:8] == "x-verif/" {
						st.Probe("accepting_extension_below_accepting_extension")
					}
					if len(res.R.Chain) >= 4 {
						st.Probe("extension_under_builtin_depth>=2")
					}
				}
				acc, rawBad := 0, 0
				for _, dc := range res.Det {
					if !dc.RawOK {
						rawBad++
					}
					_ = dc
					acc++
				}
				if acc >= 2 {
					st.Probe("several_extension_detectors_consulted")
				}
				if rawBad > 0 {
					st.Probe("stat_detector_received_other_than_header")
				}
				if len(states) > 1 {
					st.Probe("detection_overlapped_extend")
				}
			case "lookup":
				ok := false
				var wants []string
				for _, s := range states {
					m, w := lookupMatches(op, res, s)
					if m {
						ok = true
						break
					}
					wants = append(wants, w)
				}
				if !ok {
					fs = append(fs, Failure{"mismatch", fmt.Sprintf("%s: Lookup shows %s Is=%v; the model expects %v", describe(ti, oi, op), res.R.Key(), res.Is, wants)})
				}
				if op.Ext != nil && !res.R.Nil {
					if op.Name != op.Ext.Mime {
						st.Probe("lookup_by_alias")
					} else {
						st.Probe("lookup_by_type")
					}
				}
			case "use":
				if res.SlotWasSet {
					st.Probe("earlier_value_reobserved")
					if !res.Same {
						fs = append(fs, Failure{"earlier-value-changed", fmt.Sprintf("%s: a value returned earlier by t%d op%d now shows %s", describe(ti, oi, op), res.UseOf[0], res.UseOf[1], res.R.Key())})
					}
				}
			case "extend":
				if res.Skipped {
					st.Probe("extend_skipped_parent_not_found")
					if ti == 0 && op.Ext.ParentExt < 0 {
						fs = append(fs, Failure{"mismatch", fmt.Sprintf("%s: Lookup(%q) returned nil for a built-in name", describe(ti, oi, op), op.Ext.Parent)})
					}
				} else {
					shape = core.Mix(shape, hashStr(op.Ext.Parent), hashStr(op.Ext.Pred.String()))
					if op.Ext.ParentExt >= 0 {
						st.Probe("extension_on_extension")
					}
				}
			}
		}
	}
	if rr.Out.Probes["detector_parked_under_rlock"] > 0 {
		st.Probe("runs_with_walk_parked_in_detector")
	}
	if accepted {
		st.Mark(shape)
		st.Sample(sampleOfRun(rr, 14), 3)
	}
	st.FaultFree++
	return fs
}

// sampleOfRun renders a run compactly for the evidence file.
func sampleOfRun(rr *RunResult, maxOps int) map[string]any {
	var tasks [][]string
	for ti, ops := range rr.Plan.Tasks {
		var l []string
		for oi, op := range ops {
			if oi >= maxOps {
				l = append(l, fmt.Sprintf("... %d more", len(ops)-oi))
				break
			}
			s := op.String()
			r := &rr.W.Res[ti][oi]
			if r.Done && (op.Kind == "detect" || op.Kind == "reader" || op.Kind == "file" || op.Kind == "lookup") {
				s += " => " + r.R.Key()
				if !r.ErrNil && op.Kind != "detect" && op.Kind != "lookup" {
					s += " err=" + r.ErrKind
				}
			}
			l = append(l, s)
		}
		tasks = append(tasks, l)
	}
	return map[string]any{"limit0": rr.Plan.Limit0, "pool": rr.Plan.Pool, "sched": rr.Plan.Sched.Kind, "tasks": tasks,
		"steps": rr.Out.Steps, "context_switches": rr.Out.Switches}
}

var _ = inputs.Families
var _ = lib.Bare

// lookupablePath lists, leaf first and without the root, the names of the built-in
// nodes on the detection path of x; "" where Lookup(name) would reach another node.
func lookupablePath(x []byte) []string {
	b := lib.B(x, 0)
	if b.Nil || len(b.Chain) < 2 {
		return nil
	}
	out := make([]string, len(b.Chain)-1)
	for k := range out {
		name := lib.Bare(b.Chain[k].Str)
		lb := lib.LB(name)
		ok := !lb.Nil && len(lb.Chain) == len(b.Chain)-k
		for i := 0; ok && i < len(lb.Chain); i++ {
			ok = lib.Bare(lb.Chain[i].Str) == lib.Bare(b.Chain[k+i].Str) && lb.Chain[i].Ext == b.Chain[k+i].Ext
		}
		if ok {
			out[k] = name
		}
	}
	return out
}

func bytesEqual(a, b []byte) bool { return string(a) == string(b) }

func hexOf(b []byte) string {
	const digits = "0123456789abcdef"
	out := make([]byte, 0, 2*len(b))
	for _, c := range b {
		out = append(out, digits[c>>4], digits[c&15])
	}
	return string(out)
}
