package work

import (
	"fmt"

	"github.com/gabriel-vasile/mimetype/internal/verifsim/core"
	"github.com/gabriel-vasile/mimetype/internal/verifsim/inputs"
	"github.com/gabriel-vasile/mimetype/internal/verifsim/lib"
	"github.com/gabriel-vasile/mimetype/internal/verifsim/simio"
)

// C05: bytes, reader and file entry points agree; reads stop at the limit;
// errors surface. Fault enumeration: for every (input, limit) pair of a grid,
// every fault offset x {error alone, error with data} x delivery schedules.

type c05Pair struct {
	In inputs.Input
	L  uint32
}

type c05Batch struct {
	pair    int
	offsets []int // fault offsets handled by this batch (-1 = no fault)
	first   bool  // first batch of the pair: add the special file cases
}

type c05 struct {
	key     string
	pairs   []c05Pair
	batches []c05Batch
}

func init() { Props["C05"] = &c05{} }

func (c *c05) Rule() string {
	return "grid of (input family x size, limit in {0,1,2,len-1,len,len+1,64,3072,2*len} plus 511..513, 1023..1025, 4095..4097, 65535..65537 where smaller than the input) pairs; per pair every fault offset 0..min(len,limit) (0..len when limit=0; sampled - head, tail, block boundaries and a seeded sample of the middle - when there are more than 700 in the quick tier, more than 8192 in the thorough tier) x {error alone, error together with data} x seeded delivery schedules (single read, byte-at-a-time, random chunks with zero-length reads, data+EOF, scribbling), through DetectReader (plain reader; readers that also offer io.WriterTo / io.Seeker / Len() / io.ReaderAt+Size; a caller's *bufio.Reader; an *os.File opened by the caller, simulated and real; *bytes.Reader, *strings.Reader, *bytes.Buffer, *io.SectionReader) and DetectFile (simulated files; real temp files/directories for the kernel-fidelity subset). A case is non-trivial when the injected fault actually fired or a non-default delivery schedule was executed; distinct = distinct (input, limit, entry point, fault offset, with-data, schedule class) tuples"
}

func c05Inputs() []inputs.Input {
	I := func(f string, n, p, v int) inputs.Input {
		return inputs.Input{Fam: f, N: n, P: p, V: v, Seed: uint64(n*31 + p*7 + v)}
	}
	return []inputs.Input{
		I("empty", 0, 0, 0),
		I("text", 1, 0, 0), I("text", 2, 0, 0), I("text", 3, 0, 0), I("text", 16, 0, 0), I("text", 100, 0, 0),
		I("text", 3071, 0, 0), I("text", 3072, 0, 0), I("text", 3073, 0, 0), I("text", 5000, 0, 0),
		I("text_nul", 200, 100, 0), I("text_nul", 4000, 3500, 0), I("text_nul", 64, 63, 0),
		I("json", 40, 0, 0), I("json", 3000, 0, 0), I("json", 6000, 0, 0),
		I("json_trunc", 400, 300, 0), I("json_bad", 400, 200, 1),
		I("geojson", 0, 0, 0), I("geojson", 4000, 0, 1), I("har", 10, 0, 0), I("gltf", 10, 0, 0),
		I("ndjson", 5, 0, 0), I("ndjson", 100, 0, 0), I("ndjson_bad", 6, 3, 0), I("json_lines", 4, 6, 0x3c), I("json_lines", 6, 1, 0),
		I("csv", 4, 0, 3), I("csv_big", 400, 0, 4), I("csv_ragged", 8, 5, 3), I("tsv", 6, 0, 2),
		I("html_meta", 50, 0, 1), I("html_meta", 50, 3100, 2), I("xml_enc", 30, 0, 1),
		I("latin1", 64, 10, 1), I("bom16", 20, 0, 0),
		I("png", 64, 0, 0), I("gif", 10, 0, 0), I("pdf", 100, 0, 0), I("zip", 50, 0, 0),
		I("docx", 100, 100, 0), I("docx", 100, 4000, 0), I("ole", 600, 0, 0), I("elf", 32, 0, 0),
		I("gzip", 20, 0, 0), I("random", 5000, 0, 0), I("random", 7, 0, 0),
		I("shebang", 10, 0, 0), I("svg", 40, 0, 0), I("utf8", 200, 1, 3), I("utf8", 3100, 0, 1),
		I("csv_ragged", 4, 3, 2), I("json_trunc", 3072, 3000, 0),
		I("tar", 100, 0, 1), I("sample", 0, 0, 1), I("sample", 0, 0, 10),
		I("corpus", 0, 0, 3), I("corpus", 0, 0, 57), I("corpus", 300, 1, 111), I("corpus", 40, 2, 160),
		I("tar_poly", 600, 4, 20), I("tar_poly", 100, 3, 85), I("tar_poly", 0, 6, 140), I("overlay", 8, 40, 66),
		I("text", 10000, 0, 0), I("json", 20000, 0, 0), I("random", 70000, 0, 0), I("csv_big", 2000, 0, 5),
		I("text_nul", 9<<20+77, 8<<20+2, 0),
	}
}

func (c *c05) build(seed uint64, tier string) {
	key := fmt.Sprintf("%d/%s", seed, tier)
	if c.key == key {
		return
	}
	c.key, c.pairs, c.batches = key, nil, nil
	for ii, in := range c05Inputs() {
		n := len(in.Bytes())
		seen := map[uint32]bool{}
		ls := []int{0, 1, 2, n - 1, n, n + 1, 64, 3072, 2 * n}
		if n > 8<<20 {
			// the one input above 8 MiB: limits it exceeds by a lot, by a little, and that exceed it
			ls = []int{0, 8<<20 + 1, n + 1}
		}
		// limits far above the input: buffer strategies that depend on the limit's magnitude
		switch ii % 6 {
		case 1:
			ls = append(ls, 1<<20+1)
		case 3:
			ls = append(ls, 1<<24+1)
		case 5:
			if n <= 64 {
				ls = append(ls, 1<<27+3)
			}
		}
		if in.Fam == "text" && n == 2 && tier == "thorough" {
			ls = append(ls, 1<<31)
		}
		// powers of two and their neighbours that fall inside the input: block-wise readers
		for _, b := range []int{512, 1024, 4096, 65536} {
			for _, l := range []int{b - 1, b, b + 1} {
				if l < n {
					ls = append(ls, l)
				}
			}
		}
		for _, l := range ls {
			if l < 0 || seen[uint32(l)] {
				continue
			}
			seen[uint32(l)] = true
			c.pairs = append(c.pairs, c05Pair{in, uint32(l)})
		}
	}
	const per = 24
	for pi, p := range c.pairs {
		n := len(p.In.Bytes())
		m := n
		if p.L > 0 && int(p.L) < n {
			m = int(p.L)
		}
		// offsets 0..m inclusive; beyond-the-header offsets m+1.. are sampled: they must never surface
		var offs []int
		if (p.L > 1<<20 || n > 1<<20) && m > 8 {
			// a limit-sized allocation per call is costly up here: head, tail and a few offsets in between
			r := core.NewRand(core.Mix(seed, 0xb16c05, uint64(pi)))
			pick := map[int]bool{0: true, 1: true, m - 1: true, m: true}
			extra := 5
			if n > 8<<20 {
				extra = 1 // every operation moves megabytes
				delete(pick, 1)
			}
			for i := 0; i < extra; i++ {
				pick[r.Range(2, m-1)] = true
			}
			for k := 0; k <= m; k++ {
				if pick[k] {
					offs = append(offs, k)
				}
			}
		} else if (tier == "thorough" && m <= 8192) || m <= 700 {
			for k := 0; k <= m; k++ {
				offs = append(offs, k)
			}
		} else {
			r := core.NewRand(core.Mix(seed, 0xc05, uint64(pi)))
			pick := map[int]bool{}
			for k := 0; k <= 64; k++ {
				pick[k] = true
			}
			for k := m - 64; k <= m; k++ {
				pick[k] = true
			}
			mid := 96
			if tier == "thorough" {
				mid = 1500
				for _, b := range []int{512, 1024, 4096, 8192, 16384, 32768, 65536} { // block boundaries
					for k := b - 2; k <= b+2; k++ {
						if k > 0 && k < m {
							pick[k] = true
						}
					}
				}
			}
			for i := 0; i < mid; i++ {
				pick[r.Range(65, m-65)] = true
			}
			for k := 0; k <= m; k++ {
				if pick[k] {
					offs = append(offs, k)
				}
			}
		}
		if m < n {
			offs = append(offs, m+1)
			if m+2 <= n {
				offs = append(offs, n)
			}
		}
		offs = append([]int{-1}, offs...)
		for i := 0; i < len(offs); i += per {
			j := i + per
			if j > len(offs) {
				j = len(offs)
			}
			c.batches = append(c.batches, c05Batch{pair: pi, offsets: offs[i:j], first: i == 0})
		}
	}
}

// streamWraps are reader shapes built on the fault-injecting stream; stdWraps are
// the standard library's own reader types (no fault can be injected into them).
var (
	streamWraps = []string{"wt", "seek", "len", "rat", "bufio", "osfile", "limited"}
	stdWraps    = []string{"bytes", "strings", "buffer", "section", "osfile-real"}
)

var sizeDisclosing = map[string]bool{"osfile": true, "len": true, "rat": true, "seek": true}

var chunkMenu = []int{0, 1, 1, 2, 3, 7, 64, 500, 4096}

func c05Delivery(r *core.Rand, class int, k int, withData bool) *simio.Delivery {
	d := c05DeliveryRaw(r, class, k, withData)
	return d
}

// coarsen keeps the number of Read calls bounded for large streams: tiny chunk
// sizes are scaled up (zero-length reads stay).
func coarsen(d *simio.Delivery, n int) *simio.Delivery {
	if n <= 4096 {
		return d
	}
	f := n / 2048
	for i, c := range d.Chunks {
		if c > 0 && c < 64 {
			d.Chunks[i] = c * f
		}
	}
	return d
}

func c05DeliveryRaw(r *core.Rand, class int, k int, withData bool) *simio.Delivery {
	d := &simio.Delivery{FaultAt: k, FaultWithData: withData}
	if k >= 0 && r.Chance(1, 3) {
		d.ErrWraps = 1 + r.Intn(simio.NFlavours-1)
	}
	if k >= 0 && r.Chance(1, 4) {
		d.Recover = true
	}
	switch class {
	case 0: // single read
	case 1: // byte at a time
		d.Chunks = []int{1}
	case 2: // random chunks with zero-length reads
		for i, n := 0, r.Range(2, 6); i < n; i++ {
			d.Chunks = append(d.Chunks, chunkMenu[r.Intn(len(chunkMenu))])
		}
	case 3: // data + EOF in one call
		d.EOFWithData = true
		if r.Chance(1, 2) {
			d.Chunks = []int{chunkMenu[1+r.Intn(len(chunkMenu)-1)]}
		}
	case 4: // scribbling reader
		d.Scribble = true
		for i, n := 0, r.Range(1, 4); i < n; i++ {
			d.Chunks = append(d.Chunks, chunkMenu[1+r.Intn(len(chunkMenu)-1)])
		}
	}
	return d
}

func schedClass(d *simio.Delivery) int {
	switch {
	case d == nil:
		return 0
	case d.Scribble:
		return 4
	case d.EOFWithData:
		return 3
	case len(d.Chunks) == 1 && d.Chunks[0] == 1:
		return 1
	case len(d.Chunks) > 0:
		return 2
	}
	return 0
}

func (c *c05) Plan(seed uint64, tier string, worker, workers, idx int) *Plan {
	c.build(seed, tier)
	bi := worker + idx*workers
	if idx >= 10000000 && len(c.batches) > 0 {
		// process-per-run phase: a seeded sample of the batches, each in a process of its own
		bi = int(core.Mix(seed, 0x150c05, uint64(worker), uint64(idx)) % uint64(len(c.batches)))
	}
	if bi >= len(c.batches) {
		return nil
	}
	b := c.batches[bi]
	pair := c.pairs[b.pair]
	in := pair.In
	n := len(in.Bytes())
	r := core.NewRand(core.Mix(seed, 0x5c05, uint64(bi)))
	p := &Plan{Prop: "C05", Limit0: pair.L, Pool: "lifo", Sched: core.SchedSpec{Kind: "random"}, MaxSteps: 4000000}
	var ops []Op
	classes := []int{0, 1, 2, 3, 4}
	small := n <= 600
	for _, k := range b.offsets {
		var cl []int
		if k < 0 || tier == "thorough" {
			cl = classes
		} else {
			cl = []int{r.Intn(5), 0}
			if r.Chance(1, 2) {
				cl = cl[:1]
			}
		}
		for _, class := range cl {
			if class == 1 && !small {
				class = 2
			}
			for _, wd := range []bool{false, true} {
				if k < 0 && wd {
					continue
				}
				op := Op{In: &in, Del: coarsen(c05Delivery(r, class, k, wd), n)}
				switch e := r.Intn(8); {
				case e < 4:
					op.Kind = "reader"
				case e < 5:
					op.Kind, op.Wrap = "reader", streamWraps[r.Intn(len(streamWraps))]
				default:
					op.Kind = "file"
				}
				ops = append(ops, op)
			}
		}
		if k < 0 {
			// files whose Stat size is not the number of bytes they deliver
			ops = append(ops, Op{Kind: "file", In: &in, FileKind: "fifo", Del: c05Delivery(r, 2, -1, false), NameExt: nameExt(r)})
			ops = append(ops, Op{Kind: "file", In: &in, StatSize: 1})
			ops = append(ops, Op{Kind: "file", In: &in, StatSize: 1 + n/2, Del: c05Delivery(r, r.Intn(5), -1, false)})
			ops = append(ops, Op{Kind: "reader", Wrap: "osfile", In: &in, StatSize: 1 + r.Intn(n+1)})
			for _, wr := range stdWraps {
				ops = append(ops, Op{Kind: "reader", In: &in, Wrap: wr})
			}
			ops = append(ops, Op{Kind: "file", In: &in})
			ops = append(ops, Op{Kind: "reader", In: &in})
		}
	}
	if b.first {
		for _, fk := range []string{"enoent", "eacces", "dir", "real", "real-missing", "real-dir", "real-proc"} {
			ops = append(ops, Op{Kind: "file", In: &in, FileKind: fk})
		}
		ops = append(ops, Op{Kind: "file", In: &in, FileKind: "real", NameExt: extMenu[r.Intn(len(extMenu))]})
	}
	if bi == 0 && !core.RaceEnabled {
		// Limits at the very top of the 32-bit range, through a reader and a file, once per
		// check: the unchanged library allocates a limit-sized buffer per call (4 GiB of
		// address space; cheap only as long as nobody touches it), so a handful of calls is
		// all - and none under the race detector, whose shadow memory would multiply it.
		big := inputs.Input{Fam: "json", N: 6000}
		nb := len(big.Bytes())
		ops = append(ops,
			Op{Kind: "setlimit", Limit: 1<<32 - 1},
			Op{Kind: "reader", In: &big, Del: &simio.Delivery{Chunks: []int{4096, 1000}, FaultAt: -1}},
			Op{Kind: "file", In: &big, Del: &simio.Delivery{FaultAt: nb - 700}},
			Op{Kind: "setlimit", Limit: 1<<32 - 4095},
			Op{Kind: "reader", In: &big, Del: &simio.Delivery{Chunks: []int{512}, FaultAt: nb - 3, FaultWithData: true}},
			Op{Kind: "setlimit", Limit: pair.L})
	}
	// an interlude with another limit and another input: state must not be carried across calls
	if r.Chance(1, 3) && len(ops) > 2 {
		other := c.pairs[r.Intn(len(c.pairs))]
		at := r.Range(1, len(ops)-1)
		mid := Op{Kind: "reader", In: &other.In, Del: c05Delivery(r, r.Intn(5), -1, false)}
		switch r.Intn(4) {
		case 0:
			mid.Kind = "file"
		case 1:
			mid.Wrap = streamWraps[r.Intn(len(streamWraps))]
		case 2:
			// a failing call in between
			mid.Del = c05Delivery(r, r.Intn(5), r.Range(0, len(other.In.Bytes())), r.Chance(1, 2))
			if r.Chance(1, 2) {
				mid.Kind = "file"
			}
		}
		inter := []Op{
			{Kind: "setlimit", Limit: other.L},
			mid,
			{Kind: "setlimit", Limit: pair.L},
		}
		if r.Chance(1, 2) {
			// and time passes (or the wall clock is set back) before the next call
			inter = append(inter, Op{Kind: "ambient", Name: clockMenu[r.Intn(len(clockMenu))]})
		}
		ops = append(ops[:at:at], append(inter, ops[at:]...)...)
	}
	p.Tasks = [][]Op{ops}
	return p
}

// clockMenu: jumps of the simulated clock, in seconds (see the time shim).
var clockMenu = []string{"clock:1", "clock:61", "clock:121", "clock:601", "clock:3601", "clock:86401", "clock:2678401", "clock:-30", "clock:-7200"}

const octet = "application/octet-stream|"

// FaultReach says whether a consumer that asks for exactly the header (limit
// bytes, everything when the limit is 0) of an n-byte stream meets the
// injected fault, and whether the case is the one corner the contract leaves
// open: the error rides on the very Read call that completes the header.
func FaultReach(d simio.Delivery, n int, limit uint32) (reach, corner bool) {
	k := d.FaultAt
	if k < 0 || k > n {
		return false, false
	}
	switch {
	case limit == 0:
		reach = true
	case k < n && k < int(limit), k == n && n < int(limit):
		reach = true
	case k == int(limit) && d.FaultWithData && k > 0:
		corner = true
	}
	return
}

func (c *c05) Check(rr *RunResult, st *Stats) []Failure {
	fs := KernelFailures(rr, false)
	if rr.Out.Class != "" {
		return fs
	}
	limit := rr.Plan.Limit0
	for oi, op := range rr.Plan.Tasks[0] {
		res := &rr.W.Res[0][oi]
		if !res.Done {
			fs = append(fs, Failure{"no-return", fmt.Sprintf("op%d %s did not return", oi, op)})
			continue
		}
		st.Ops++
		if op.Kind == "setlimit" {
			limit = op.Limit
			continue
		}
		if op.Kind == "ambient" {
			st.Fault("clock_jump")
		}
		if op.Kind != "reader" && op.Kind != "file" {
			continue
		}
		x := rr.W.Bytes[0][oi]
		n := len(x)
		where := fmt.Sprintf("op%d %s limit=%d len=%d", oi, op, limit, n)
		bad := func(class, format string, a ...any) {
			fs = append(fs, Failure{class, where + ": " + fmt.Sprintf(format, a...)})
		}
		if res.R.Nil {
			bad("nil-result", "a nil MIME was returned")
			continue
		}
		// special file kinds
		switch op.FileKind {
		case "enoent", "eacces", "real-missing":
			want := "enoent"
			if op.FileKind == "eacces" {
				want = "eacces"
			}
			if res.ErrNil || res.ErrKind != want {
				bad("error-lost", "open failure (%s) came back as err=%q", want, res.ErrText)
			}
			if res.R.Key() != octet {
				bad("mismatch", "open failure reported %s, want application/octet-stream", res.R.Key())
			}
			st.Fault("open_" + want)
			st.Mark(hashStr(fmt.Sprintf("%s|%d|%s", *op.In, limit, op.FileKind)))
			continue
		case "dir", "real-dir":
			if res.ErrNil || res.ErrKind != "eisdir" {
				bad("error-lost", "reading a directory came back as err=%q", res.ErrText)
			}
			if res.R.Key() != octet {
				bad("mismatch", "directory reported %s, want application/octet-stream", res.R.Key())
			}
			st.Fault("read_eisdir")
			st.Mark(hashStr(fmt.Sprintf("%s|%d|%s", *op.In, limit, op.FileKind)))
			continue
		case "real-proc":
			if x == nil {
				st.Probe("procfs_unavailable")
				continue
			}
			st.Probe("procfs_file_detected")
			want := lib.B(x, limit)
			if !res.ErrNil || res.R.Key() != want.Key() {
				bad("mismatch", "%s (Stat reports size 0) reported %s err=%q, Detect on the %d bytes it contains reports %s", "/proc/version", res.R.Key(), res.ErrText, n, want.Key())
			}
			continue
		case "real":
			st.Probe("real_file_detected")
			want := lib.B(x, limit)
			if !res.ErrNil || res.R.Key() != want.Key() {
				bad("mismatch", "real file reported %s err=%q, Detect on the same bytes reports %s", res.R.Key(), res.ErrText, want.Key())
			}
			continue
		}
		d := simio.NoFault()
		if op.Del != nil {
			d = *op.Del
		}
		k := d.FaultAt
		reach, corner := FaultReach(d, n, limit)
		if op.Wrap == "limited" && reach && k == n && (!d.FaultWithData || k == 0) && LimitedN(n, oi) == n {
			// the LimitedReader has handed out its N bytes and answers io.EOF itself: the
			// failing Read of the stream below is never issued
			reach = false
		}
		// consumption
		consumed := -1
		if res.Stream != nil {
			consumed = res.Stream.Handed
			if op.Wrap == "bufio" && res.ConsumedSet {
				consumed = res.Consumed // what left the caller's bufio.Reader, not what it read ahead
			}
		} else if res.ConsumedSet {
			consumed = res.Consumed
		}
		// The consumption bound is stated for DetectReader; how much DetectFile
		// reads from a file it opened itself is not observable by the caller.
		if op.Kind == "reader" && limit > 0 && consumed > int(limit) {
			bad("over-read", "%d bytes were taken from the reader, the limit is %d", consumed, limit)
		}
		if op.Kind == "reader" && limit > 0 && res.Stream != nil && op.Wrap != "bufio" && res.Stream.Pos() > int(limit) {
			bad("over-read", "the reader was left at offset %d, the limit is %d", res.Stream.Pos(), limit)
		}
		if op.Kind == "file" && reach && k == n {
			reach = false // failing exactly where the content ends: not reached by a reader that learnt the size from Stat
		}
		either := false
		if op.Kind == "file" && !reach && k >= 0 {
			corner, either = true, true // a file failing beyond the header: the statement covers failures before the header is complete only
		}
		if sizeDisclosing[op.Wrap] && reach && k == n {
			// a reader that discloses its size (Stat, Len, Size, Seek to the end) and fails exactly
			// where its content ends: a consumer that sized its buffer from that never meets the failure
			reach, either = false, true
		}
		if limit == 0 && k < 0 && consumed >= 0 && consumed != n {
			bad("under-read", "limit 0 must consume everything: %d of %d bytes taken", consumed, n)
		}
		if op.StatSize > 0 {
			st.Fault("stat_size_differs_from_content")
		}
		wantOK := lib.B(x, limit)
		okAnswer := res.ErrNil && res.R.Key() == wantOK.Key()
		errAnswer := !res.ErrNil && res.R.Key() == octet && (res.ErrInjected || res.ErrKind == "eio")
		entry := op.Kind + "/" + op.Wrap
		switch {
		case reach:
			if !errAnswer {
				cls := "error-lost"
				if !res.ErrNil {
					cls = "mismatch"
				}
				bad(cls, "the stream failed at offset %d (with data: %v) before the header was complete, got %s err=%q; want application/octet-stream and the injected error", k, d.FaultWithData, res.R.Key(), res.ErrText)
			}
			st.Fault("read_error_reached")
			if d.ErrWraps > 0 && d.ErrWraps < 3 {
				st.Fault("read_error_wrapping_eof")
			}
			if d.ErrWraps >= 3 && d.ErrWraps < 8 {
				st.Fault("read_error_calling_itself_temporary")
			}
			if d.ErrWraps >= 8 {
				st.Fault("read_error_of_uncomparable_type")
			}
			if d.Recover {
				st.Fault("read_error_transient")
			}
			if k == 0 {
				st.Probe("fault_at_offset_0")
			}
			if k == n {
				st.Probe("fault_at_end_of_input")
			}
			if k == int(limit)-1 || (limit == 0 && k == n-1) {
				st.Probe("fault_at_last_header_byte")
			}
			if d.FaultWithData && k > 0 {
				st.Fault("read_error_with_data")
			}
		case corner && op.Kind == "reader" && !either:
			// The error rides on the Read call that completes the header: the header
			// is complete, the reader did deliver those bytes, so the answer is
			// Detect's (what io.ReadFull semantics give). Judged strictly for readers.
			st.Probe("error_with_last_header_bytes")
			if !okAnswer {
				cls := "mismatch"
				if !res.ErrNil {
					cls = "spurious-error"
				}
				bad(cls, "the error was delivered together with the bytes that complete the header (all %d header bytes arrived): got %s err=%q; Detect on the same bytes reports %s", limit, res.R.Key(), res.ErrText, wantOK.Key())
			}
		case corner || either:
			st.Probe("silent_corner")
			if !okAnswer && !errAnswer {
				bad("mismatch", "error delivered together with the byte completing the header: got %s err=%q; want either Detect's answer %s or application/octet-stream with the error", res.R.Key(), res.ErrText, wantOK.Key())
			}
		default:
			if !okAnswer {
				cls := "mismatch"
				if !res.ErrNil {
					cls = "spurious-error"
				}
				bad(cls, "got %s err=%q, Detect on the same bytes reports %s", res.R.Key(), res.ErrText, wantOK.Key())
			}
			if k >= 0 {
				st.Probe("fault_beyond_header_not_surfaced")
				if k == int(limit) {
					st.Probe("fault_exactly_at_limit_not_surfaced")
				}
			}
		}
		if res.Stream != nil {
			s := res.Stream
			if s.ZeroReads > 0 {
				st.Probe("zero_length_read")
			}
			if s.SawEOF && d.EOFWithData {
				st.Probe("data_plus_eof")
			}
			if d.Scribble {
				st.Probe("scribble")
			}
			if s.AfterEnd > 0 {
				st.Probe("read_again_after_end")
			}
			if op.Kind == "file" {
				if res.Closes == res.Opens {
					st.Probe("file_closed")
				} else {
					st.Probe("file_left_open")
				}
			}
		}
		if op.Wrap != "" {
			st.Probe("reader_wrap_" + op.Wrap)
		}
		cls := schedClass(op.Del)
		if (res.Stream != nil && res.Stream.Faulted) || cls != 0 {
			st.Mark(hashStr(fmt.Sprintf("%s|%d|%s|%d|%v|%d", *op.In, limit, entry, k, d.FaultWithData, cls)))
		}
		if k >= 0 && reach && res.Stream != nil {
			st.Sample(map[string]any{"input": op.In.String(), "len": n, "limit": limit, "entry": entry, "delivery": d,
				"reader_calls": res.Stream.Calls, "bytes_handed": consumed, "result": res.R.Key(), "err": res.ErrText}, 6)
		}
	}
	if len(fs) == 0 {
		st.WithFaults++
	}
	return fs
}
