// Package work holds the simulated workloads: a common operation vocabulary
// over the library's public API, the engine that executes a plan under the
// kernel, and per-property plan generators and oracles.
package work

import (
	"bufio"
	"bytes"
	"errors"
	"fmt"
	"io"
	stdmime "mime"
	stdos "os"
	"path/filepath"
	"strconv"
	"strings"
	stdsync "sync"
	"syscall"

	"github.com/gabriel-vasile/mimetype"
	"github.com/gabriel-vasile/mimetype/internal/verifsim/core"
	"github.com/gabriel-vasile/mimetype/internal/verifsim/inputs"
	"github.com/gabriel-vasile/mimetype/internal/verifsim/lib"
	"github.com/gabriel-vasile/mimetype/internal/verifsim/model"
	shimos "github.com/gabriel-vasile/mimetype/internal/verifsim/shim/os"
	shimtime "github.com/gabriel-vasile/mimetype/internal/verifsim/shim/time"
	"github.com/gabriel-vasile/mimetype/internal/verifsim/simio"
)

// Op is one public-API call (or a caller-side action) of a task.
type Op struct {
	Kind     string          `json:"op"` // detect | reader | file | lookup | setlimit | extend | readarr | use
	In       *inputs.Input   `json:"in,omitempty"`
	Del      *simio.Delivery `json:"del,omitempty"`
	FileKind string          `json:"file_kind,omitempty"` // "", enoent, eacces, dir, real, real-missing, real-dir
	Limit    uint32          `json:"limit,omitempty"`
	Ext      *model.Ext      `json:"ext,omitempty"`
	Name     string          `json:"name,omitempty"`
	Slot     int             `json:"slot,omitempty"`      // 1+slot: detect/lookup publish into it, use reads it
	Shared   int             `json:"shared,omitempty"`    // 1+index of a shared input buffer
	Arr      int             `json:"arr,omitempty"`       // readarr: array index
	Wrap     string          `json:"wrap,omitempty"`      // reader: "", wt, seek, len, rat, bufio, osfile (stream based); bytes, strings, buffer, section, osfile-real (standard types, no fault)
	Early    bool            `json:"early,omitempty"`     // the result is handed to the slot before the producer calls any accessor on it
	Reuse    bool            `json:"reuse,omitempty"`     // detect: the caller reuses one buffer (same address) for successive inputs
	StatSize int             `json:"stat_size,omitempty"` // file / osfile: Stat reports StatSize-1 bytes (0: the accurate size)
	NameExt  string          `json:"name_ext,omitempty"`  // file: the path ends in this extension (a name says nothing about the content)
}

func (o Op) String() string {
	s := o.Kind
	if o.In != nil {
		s += " " + o.In.String()
	}
	if o.Del != nil {
		s += fmt.Sprintf(" del=%+v", *o.Del)
	}
	if o.Kind == "setlimit" {
		s += fmt.Sprintf(" %d", o.Limit)
	}
	if o.Ext != nil {
		s += fmt.Sprintf(" #%d %s on %q if %s aliases=%v cap+%d arr=%d", o.Ext.ID, o.Ext.Mime, o.Ext.Parent, o.Ext.Pred, o.Ext.Aliases, o.Ext.SpareCap, o.Ext.Arr)
	}
	if o.Name != "" {
		s += " " + o.Name
	}
	if o.StatSize > 0 {
		s += fmt.Sprintf(" stat-size=%d", o.StatSize-1)
	}
	if o.Wrap != "" {
		s += " as " + o.Wrap
	}
	if o.FileKind != "" {
		s += " " + o.FileKind
	}
	if o.NameExt != "" {
		s += " named *" + o.NameExt
	}
	return s
}

// Plan is one simulated run, explicitly.
type Plan struct {
	Prop     string         `json:"property"`
	Limit0   uint32         `json:"limit0"`
	Pool     string         `json:"pool"`
	Sched    core.SchedSpec `json:"sched"`
	Pre      []Op           `json:"pre,omitempty"` // Extend calls made before the tasks start
	Tasks    [][]Op         `json:"tasks"`
	Shared   []inputs.Input `json:"shared,omitempty"`
	Arrays   []int          `json:"arrays,omitempty"` // lengths of shared alias backing arrays
	Slots    int            `json:"slots,omitempty"`
	MaxSteps int            `json:"max_steps,omitempty"`
	Traps    bool           `json:"traps,omitempty"` // the plan registers a detector that panics on the poison inputs
}

// Unjudged says whether the result of an operation is outside what the model
// states: a detection of a poison input while a trap detector may be registered.
// (What a detection does when a user-supplied detector panics is not stated -
// propagate, treat as no match - only that every other operation is unaffected.)
func (p *Plan) Unjudged(op *Op) bool {
	return p.Traps && op.In != nil && op.In.Fam == "poison"
}

// DetCall records one invocation of an extension detector.
type DetCall struct {
	Ext   int
	Len   int
	Limit uint32
	RawOK bool // raw was exactly the header of the operation's input for that limit
}

// OpRes is what a task observed for one operation. Task-owned until join.
type OpRes struct {
	Done        bool
	R           lib.Res
	ErrNil      bool
	ErrInjected bool
	ErrText     string
	ErrKind     string // enoent | eacces | eisdir | eio | other
	Stream      *simio.Stream
	Opens       int
	Closes      int
	BytesLeft   int // reader: bytes of the input not consumed
	Consumed    int // reader: bytes taken out of the reader the caller handed in (its final position for seekable ones)
	ConsumedSet bool
	BufChanged  bool
	Is          []bool
	IsNames     []string
	Arr         []string
	Skipped     bool
	ParentObs   lib.Res
	Det         []DetCall
	Same        bool
	UseOf       [2]int // use: producer (task, op)
	Backing     []string
	BackingLen  int
	SlotWasSet  bool
	Panicked    bool // a trap detector's panic came out of the call (the caller recovered)
	SelfIs      bool // m.Is(m.String()) on a detection result (exercises the accessor; judged only by the race detector)
}

type opCtx struct {
	res    *OpRes
	in     []byte
	nested bool // inside a call a detector made back into the library
}

// arenas holds one reusable caller buffer per task (task-owned).
type arena struct{ buf []byte }

type slot struct {
	mu     stdsync.Mutex
	m      *mimetype.MIME
	obs    lib.Res
	obsSet bool // the producer has looked at the value itself (obs is what it saw)
	from   [2]int
	set    bool
}

// World is the materialised form of a plan.
type World struct {
	Plan    *Plan
	Bytes   [][][]byte // [task][op]
	Shared  [][]byte
	Arrays  [][]string
	Res     [][]OpRes
	slots   []slot
	arenas  []arena
	RealDir string
	PreExts []*model.Ext
	// PreSkipped: preliminary Extend calls whose parent Lookup returned nil.
	// They run sequentially, after their parent was registered, so each one is a mismatch.
	PreSkipped []*model.Ext
}

// procFile is a stable kernel-generated file (procfs reports size 0 for it).
const procFile = "/proc/version"

const canary = 0xC3

// withCanary copies x into a buffer whose spare capacity holds bytes the
// library must neither read nor write: a verdict-flipping tail (a binary byte,
// closing brackets, a zip entry, a <meta>, an <svg>, ...) chosen by the length
// of x, followed by a constant filler. A detector that peeks beyond len(raw)
// through the capacity changes its answer; a write there is seen afterwards.
func withCanary(x []byte) []byte {
	spare := spareFor(len(x))
	b := make([]byte, len(x), len(x)+len(spare))
	copy(b, x)
	copy(b[len(x):cap(b)], spare)
	return b
}

// withCanaryAt is withCanary for a buffer that does not start at the beginning of
// its allocation: the caller hands in buf[off:off+len(x)] of something bigger (the
// payload behind a frame header), so the slice's first byte sits at an address
// that is off bytes past an aligned one.
func withCanaryAt(x []byte, off int) []byte {
	spare := spareFor(len(x))
	raw := make([]byte, off+len(x), off+len(x)+len(spare))
	for i := 0; i < off; i++ {
		raw[i] = canary
	}
	copy(raw[off:], x)
	copy(raw[off+len(x):cap(raw)], spare)
	return raw[off:]
}

func spareFor(n int) []byte {
	t := inputs.Tails[1+n%(len(inputs.Tails)-1)]
	spare := make([]byte, 0, len(t)+24)
	spare = append(spare, t...)
	for i := 0; i < 24; i++ {
		spare = append(spare, canary)
	}
	return spare
}

func canaryIntact(b, want []byte) bool {
	if !bytes.Equal(b, want) {
		return false
	}
	return bytes.Equal(b[len(b):cap(b)], spareFor(len(want)))
}

// CanaryString fills unused alias array cells.
func CanaryString(arr, i int) string { return fmt.Sprintf("verif-canary/%d-%d", arr, i) }

func simPath(ti, oi int) string { return fmt.Sprintf("%st%d/o%d", simio.Prefix, ti, oi) }

// pathOf is the path of operation (ti, oi)'s simulated file, with the name extension the plan gives it.
func (w *World) pathOf(ti, oi int) string {
	return simPath(ti, oi) + w.Plan.Tasks[ti][oi].NameExt
}

// Materialise builds the world of a plan. Kernel goroutine, before the run.
func Materialise(p *Plan, realDir string) *World {
	w := &World{Plan: p, RealDir: realDir}
	shimtime.Reset()
	model.Flag.Store(0)
	for _, in := range p.Shared {
		w.Shared = append(w.Shared, withCanary(in.Bytes()))
	}
	for k, n := range p.Arrays {
		a := make([]string, n)
		for i := range a {
			a[i] = CanaryString(k, i)
		}
		w.Arrays = append(w.Arrays, a)
	}
	w.slots = make([]slot, p.Slots+1)
	for k := range simio.FS {
		delete(simio.FS, k)
	}
	place := func(e *model.Ext) {
		if e != nil && e.Arr >= 0 && e.Arr < len(w.Arrays) {
			copy(w.Arrays[e.Arr][e.Off:], e.Aliases)
		}
	}
	for i := range p.Pre {
		place(p.Pre[i].Ext)
	}
	w.Bytes = make([][][]byte, len(p.Tasks))
	w.Res = make([][]OpRes, len(p.Tasks))
	w.arenas = make([]arena, len(p.Tasks))
	for ti, ops := range p.Tasks {
		w.Bytes[ti] = make([][]byte, len(ops))
		w.Res[ti] = make([]OpRes, len(ops))
		for oi := range ops {
			op := &ops[oi]
			place(op.Ext)
			if op.In == nil {
				continue
			}
			var x []byte
			if op.Shared > 0 {
				x = w.Shared[op.Shared-1]
			} else {
				x = op.In.Bytes()
			}
			w.Bytes[ti][oi] = x
			if op.Kind == "reader" && op.Wrap == "osfile-real" && realDir != "" {
				_ = stdos.WriteFile(w.realPath(ti, oi), x, 0o644)
			}
			if op.Kind != "file" && !(op.Kind == "reader" && op.Wrap == "osfile") {
				continue
			}
			d := simio.NoFault()
			if op.Del != nil {
				d = *op.Del
			}
			switch op.FileKind {
			case "":
				simio.FS[w.pathOf(ti, oi)] = &simio.FileSpec{Data: x, D: d, StatSize: op.StatSize}
			case "enoent":
				simio.FS[w.pathOf(ti, oi)] = &simio.FileSpec{OpenErr: syscall.ENOENT}
			case "eacces":
				simio.FS[w.pathOf(ti, oi)] = &simio.FileSpec{OpenErr: syscall.EACCES}
			case "dir":
				simio.FS[w.pathOf(ti, oi)] = &simio.FileSpec{IsDir: true, D: simio.NoFault()}
			case "fifo":
				simio.FS[w.pathOf(ti, oi)] = &simio.FileSpec{Data: x, D: d, Fifo: true}
			case "real":
				if realDir != "" {
					_ = stdos.WriteFile(w.realPath(ti, oi), x, 0o644)
				}
			case "real-proc":
				// a kernel-generated file: regular, size 0 according to Stat, content nevertheless
				if b, err := stdos.ReadFile(procFile); err == nil {
					w.Bytes[ti][oi] = b
				} else {
					w.Bytes[ti][oi] = nil
				}
			case "real-dir":
				if realDir != "" {
					_ = stdos.MkdirAll(w.realPath(ti, oi), 0o755)
				}
			}
		}
	}
	return w
}

func (w *World) realPath(ti, oi int) string {
	return filepath.Join(w.RealDir, fmt.Sprintf("t%do%d", ti, oi)+w.Plan.Tasks[ti][oi].NameExt)
}

// Cleanup removes the real files of the world.
func (w *World) Cleanup() {
	if w.RealDir == "" {
		return
	}
	for ti, ops := range w.Plan.Tasks {
		for oi, op := range ops {
			if (op.Kind == "file" && (op.FileKind == "real" || op.FileKind == "real-dir")) || (op.Kind == "reader" && op.Wrap == "osfile-real") {
				_ = stdos.RemoveAll(w.realPath(ti, oi))
			}
		}
	}
}

func makeDetector(e *model.Ext) func([]byte, uint32) bool {
	pred, id := e.Pred, e.ID
	return func(raw []byte, limit uint32) bool {
		var ctx *opCtx
		if t := core.Cur(); t != nil {
			t.Yield(core.KDetector, nil, "ext", int64(id))
			if c, ok := t.Local.(*opCtx); ok && c != nil {
				ctx = c
				if !c.nested {
					c.res.Det = append(c.res.Det, DetCall{Ext: id, Len: len(raw), Limit: limit,
						RawOK: c.in != nil && bytes.Equal(raw, lib.Header(c.in, limit))})
				}
			}
		}
		if pred.Traps(raw) {
			panic(model.DetectorPanic{Ext: id})
		}
		if pred.CallsBack > 0 && ctx != nil && !ctx.nested {
			// one level only: the detectors met by the nested call decide without calling back
			ctx.nested = true
			switch pred.CallsBack {
			case 1:
				_ = mimetype.Lookup("text/csv")
			case 2:
				_ = mimetype.Lookup("x-verif/nobody")
			case 3:
				_ = mimetype.Detect([]byte("%PDF-1.4 called from inside a detector"))
			case 4:
				if m := mimetype.Lookup("application/zip"); m != nil {
					_ = m.Is("application/x-zip-compressed")
				}
			}
			ctx.nested = false
		}
		return pred.Eval(raw, limit)
	}
}

func (w *World) aliasSlice(e *model.Ext, res *OpRes) []string {
	n := len(e.Aliases)
	if e.Arr >= 0 && e.Arr < len(w.Arrays) {
		a := w.Arrays[e.Arr]
		hi := e.Off + n + e.SpareCap
		if hi > len(a) {
			hi = len(a)
		}
		return a[e.Off : e.Off+n : hi]
	}
	s := make([]string, n, n+e.SpareCap)
	copy(s, e.Aliases)
	if res != nil {
		res.Backing = s[:cap(s)]
		res.BackingLen = n
	}
	return s
}

// register performs one Extend call; it reports false when the parent could not be looked up.
func (w *World) register(e *model.Ext, res *OpRes) bool {
	det := makeDetector(e)
	al := w.aliasSlice(e, res)
	if e.Parent == "" {
		mimetype.Extend(det, e.Mime, e.Extension, al...)
		return true
	}
	p := mimetype.Lookup(e.Parent)
	if res != nil {
		res.ParentObs = lib.Observe(p)
	}
	if p == nil {
		return false
	}
	p.Extend(det, e.Mime, e.Extension, al...)
	return true
}

// RunPre performs the plan's preliminary Extend calls, outside the simulation.
func (w *World) RunPre() error {
	for i := range w.Plan.Pre {
		op := &w.Plan.Pre[i]
		if op.Kind != "extend" || op.Ext == nil {
			return fmt.Errorf("pre op %d is not an extend", i)
		}
		if op.Ext.ParentExt >= 0 && strings.TrimSpace(op.Ext.Parent) == "" {
			return fmt.Errorf("malformed plan: pre op %d hangs on extension #%d but names no parent", i, op.Ext.ParentExt)
		}
		if !w.register(op.Ext, nil) {
			known := op.Ext.ParentExt < 0 // a built-in name must always be found
			for _, e := range w.PreExts {
				known = known || e.ID == op.Ext.ParentExt
			}
			if !known {
				// the plan never registered the parent (an edited replay file): not a verdict
				return fmt.Errorf("malformed plan: pre op %d hangs on extension #%d, which the plan does not register before it", i, op.Ext.ParentExt)
			}
			w.PreSkipped = append(w.PreSkipped, op.Ext)
			continue
		}
		w.PreExts = append(w.PreExts, op.Ext)
	}
	return nil
}

type wtReader struct{ s *simio.Stream }

func (r wtReader) Read(p []byte) (int, error) { return r.s.Read(p) }

// WriteTo offers the whole remaining stream at once, the way *bytes.Reader,
// *os.File and friends do. Everything written counts as consumed.
func (r wtReader) WriteTo(wr io.Writer) (int64, error) {
	var total int64
	buf := make([]byte, 512)
	for {
		n, err := r.s.Read(buf)
		if n > 0 {
			m, werr := wr.Write(buf[:n])
			total += int64(m)
			if werr != nil {
				return total, werr
			}
		}
		if err == io.EOF {
			return total, nil
		}
		if err != nil {
			return total, err
		}
	}
}

// seekReader additionally offers io.Seeker (like *os.File, *bytes.Reader, *strings.Reader).
type seekReader struct{ s *simio.Stream }

func (r seekReader) Read(p []byte) (int, error)                { return r.s.Read(p) }
func (r seekReader) Seek(off int64, whence int) (int64, error) { return r.s.Seek(off, whence) }

// ratReader additionally offers io.ReaderAt, io.Seeker and Size() (like
// *bytes.Reader, *strings.Reader, *io.SectionReader, *os.File).
type ratReader struct{ s *simio.Stream }

func (r ratReader) Read(p []byte) (int, error)                { return r.s.Read(p) }
func (r ratReader) Seek(off int64, whence int) (int64, error) { return r.s.Seek(off, whence) }
func (r ratReader) ReadAt(p []byte, off int64) (int, error)   { return r.s.ReadAt(p, off) }
func (r ratReader) Size() int64                               { return int64(len(r.s.Data)) }

// LimitedN is the N of the *io.LimitedReader wrapped around a stream of n bytes by operation oi.
func LimitedN(n, oi int) int { return n + []int{0, 0, 1, 7}[(n+oi)%4] }

// lenReader additionally offers Len() (like *bytes.Reader, *bytes.Buffer, *strings.Reader).
type lenReader struct{ s *simio.Stream }

func (r lenReader) Read(p []byte) (int, error) { return r.s.Read(p) }
func (r lenReader) Len() int                   { return r.s.Remaining() }

func classify(err error, res *OpRes) {
	res.ErrNil = err == nil
	if err == nil {
		return
	}
	res.ErrText = err.Error()
	res.ErrInjected = errors.Is(err, simio.ErrInjected)
	switch {
	case errors.Is(err, syscall.ENOENT):
		res.ErrKind = "enoent"
	case errors.Is(err, syscall.EACCES):
		res.ErrKind = "eacces"
	case errors.Is(err, syscall.EISDIR):
		res.ErrKind = "eisdir"
	case errors.Is(err, syscall.EIO):
		res.ErrKind = "eio"
	default:
		res.ErrKind = "other"
	}
}

// Exec runs operation oi of task ti on the calling task.
func (w *World) Exec(t *core.Task, ti, oi int) {
	res := &w.Res[ti][oi]
	defer func() {
		// the caller recovers from a panic of its own detector and carries on
		if r := recover(); r != nil {
			if _, ok := r.(model.DetectorPanic); !ok {
				panic(r)
			}
			res.Panicked = true
			t.OpReturn(oi)
			res.Done = true
			t.Local = nil
		}
	}()
	w.exec(t, ti, oi)
}

func (w *World) exec(t *core.Task, ti, oi int) {
	op := &w.Plan.Tasks[ti][oi]
	res := &w.Res[ti][oi]
	x := w.Bytes[ti][oi]
	ctx := &opCtx{res: res, in: x}
	t.Local = ctx
	tag := op.Kind
	if op.In != nil {
		tag = op.In.Tag()
	}
	switch op.Kind {
	case "detect":
		buf := x
		switch {
		case op.Shared != 0:
		case op.Reuse:
			// a caller that reads successive inputs into one buffer: same address, new content
			a := &w.arenas[ti]
			if cap(a.buf) < len(x)+72 {
				a.buf = make([]byte, 0, len(x)+4096)
			}
			off := (ti*3 + 1) % 8 // the slice starts somewhere inside the caller's buffer - always at the same place: same address, new content
			buf = a.buf[off : off+len(x)]
			copy(buf, x)
		default:
			buf = withCanaryAt(x, (len(x)+oi+ti)%8)
		}
		t.OpInvoke(oi, tag)
		m := mimetype.Detect(buf)
		t.OpReturn(oi)
		w.handOver(t, op, m, ti, oi)
		res.R = lib.Observe(m)
		res.SelfIs = m != nil && m.Is(m.String())
		switch {
		case op.Shared != 0:
		case op.Reuse:
			res.BufChanged = !bytes.Equal(buf, x)
		default:
			res.BufChanged = !canaryIntact(buf, x)
		}
		w.publish(op, m, res, ti, oi)
	case "reader":
		d := simio.NoFault()
		if op.Del != nil {
			d = *op.Del
		}
		s := &simio.Stream{Data: x, D: d}
		res.Stream = s
		var rd io.Reader = struct{ io.Reader }{s}
		consumed := func() int { return s.Handed }
		var after func()
		switch op.Wrap {
		case "wt":
			rd = wtReader{s}
		case "seek":
			rd = seekReader{s}
			consumed = func() int { return s.Pos() }
		case "len":
			rd = lenReader{s}
		case "rat":
			rd = ratReader{s}
			consumed = func() int { return s.Pos() }
		case "limited":
			// an *io.LimitedReader whose N is the length of the stream or a little more: transparent
			// for a consumer that treats it as any reader (its Read forwards (n, err) verbatim)
			rd = &io.LimitedReader{R: struct{ io.Reader }{s}, N: int64(LimitedN(len(x), oi))}
		case "bufio":
			// a *bufio.Reader handed in by the caller: what counts is what was taken out of
			// it, not what it read ahead from the stream below
			br := bufio.NewReaderSize(struct{ io.Reader }{s}, 16+len(x)%5000)
			rd = br
			consumed = func() int { return s.Handed - br.Buffered() }
		case "bytes":
			br := bytes.NewReader(x)
			rd, res.Stream = br, nil
			consumed = func() int { return len(x) - br.Len() }
		case "strings":
			sr := strings.NewReader(string(x))
			rd, res.Stream = sr, nil
			consumed = func() int { return len(x) - sr.Len() }
		case "buffer":
			bb := bytes.NewBuffer(append([]byte(nil), x...))
			rd, res.Stream = bb, nil
			consumed = func() int { return len(x) - bb.Len() }
		case "section":
			sr := io.NewSectionReader(bytes.NewReader(x), 0, int64(len(x)))
			rd, res.Stream = sr, nil
			consumed = func() int { p, _ := sr.Seek(0, io.SeekCurrent); return int(p) }
		case "osfile":
			// an *os.File the caller opened itself and hands to DetectReader
			f, err := shimos.Open(w.pathOf(ti, oi))
			if err != nil {
				panic("harness: simulated file missing: " + err.Error())
			}
			if res.Stream != nil && res.Stream != s {
				s = res.Stream // the stream the shim opened
			}
			rd = f
			consumed = func() int { return s.Pos() }
			after = func() { f.Close() }
		case "osfile-real":
			pth := w.realPath(ti, oi)
			f, err := shimos.Open(pth)
			if err != nil {
				panic("harness: real file missing: " + err.Error())
			}
			rd, res.Stream = f, nil
			consumed = func() int { p, _ := f.Seek(0, io.SeekCurrent); return int(p) }
			after = func() { f.Close() }
		}
		t.OpInvoke(oi, tag)
		m, err := mimetype.DetectReader(rd)
		t.OpReturn(oi)
		w.handOver(t, op, m, ti, oi)
		res.R = lib.Observe(m)
		classify(err, res)
		res.Consumed, res.ConsumedSet = consumed(), true
		res.BytesLeft = len(x) - res.Consumed
		if after != nil {
			after()
		}
		w.publish(op, m, res, ti, oi)
	case "file":
		path := w.pathOf(ti, oi)
		switch op.FileKind {
		case "real", "real-dir":
			path = w.realPath(ti, oi)
		case "real-missing":
			path = filepath.Join(w.RealDir, "does-not-exist", fmt.Sprintf("t%do%d", ti, oi))
		case "real-proc":
			path = procFile
		}
		t.OpInvoke(oi, tag)
		m, err := mimetype.DetectFile(path)
		t.OpReturn(oi)
		w.handOver(t, op, m, ti, oi)
		res.R = lib.Observe(m)
		classify(err, res)
		w.publish(op, m, res, ti, oi)
	case "lookup":
		t.OpInvoke(oi, tag)
		m := mimetype.Lookup(op.Name)
		t.OpReturn(oi)
		res.R = lib.Observe(m)
		if m != nil && op.Ext != nil {
			for _, nm := range op.Ext.Names() {
				if strings.TrimSpace(nm) == "" {
					continue
				}
				res.IsNames = append(res.IsNames, nm)
				res.Is = append(res.Is, m.Is(nm))
			}
		}
		w.publish(op, m, res, ti, oi)
	case "setlimit":
		t.OpInvoke(oi, tag)
		mimetype.SetLimit(op.Limit)
		t.OpReturn(oi)
	case "setflag":
		// the caller's own switch, consulted by FlagEq detectors
		model.Flag.Store(int32(op.Limit))
	case "ambient":
		// a change of process-wide state that is none of the library's business (real, not simulated)
		kind, arg, _ := strings.Cut(op.Name, ":")
		switch kind {
		case "mime":
			ext, typ, _ := strings.Cut(arg, "|")
			_ = stdmime.AddExtensionType(ext, typ)
		case "env":
			k, v, _ := strings.Cut(arg, "=")
			_ = stdos.Setenv(k, v)
		case "clock":
			sec, _ := strconv.Atoi(arg)
			shimtime.Advance(shimtime.Duration(sec) * shimtime.Second)
		}
	case "extend":
		t.OpInvoke(oi, tag)
		ok := w.register(op.Ext, res)
		t.OpReturn(oi)
		res.Skipped = !ok
	case "extend-result":
		// Extend called on a value a detection returned (or on its Parent()): results are
		// copies, so this registers nothing in the tree - and must disturb nothing in it
		sl := &w.slots[op.Slot]
		sl.mu.Lock()
		m, set, from := sl.m, sl.set, sl.from
		sl.mu.Unlock()
		if set && w.Plan.Tasks[from[0]][from[1]].Kind == "lookup" {
			set = false // a looked-up node is the live one: Extend on it is a registration, not this case
		}
		if set && m != nil && op.Ext != nil {
			if op.Arr > 0 && m.Parent() != nil {
				m = m.Parent()
			}
			t.OpInvoke(oi, tag)
			m.Extend(makeDetector(op.Ext), op.Ext.Mime, op.Ext.Extension, w.aliasSlice(op.Ext, nil)...)
			t.OpReturn(oi)
		}
	case "readarr":
		a := w.Arrays[op.Arr]
		res.Arr = append([]string(nil), a...)
	case "use":
		sl := &w.slots[op.Slot]
		sl.mu.Lock()
		m, obs, set, from, obsSet := sl.m, sl.obs, sl.set, sl.from, sl.obsSet
		sl.mu.Unlock()
		res.SlotWasSet = set && obsSet
		if set {
			t.Yield(core.KHandoff, nil, "slot", int64(op.Slot))
			res.R = lib.Observe(m)
			if m != nil {
				res.SelfIs = m.Is(m.String())
				for p := m.Parent(); p != nil; p = p.Parent() {
					_ = p.Is("application/octet-stream")
				}
			}
			res.Same = !obsSet || res.R.Key() == obs.Key()
			res.UseOf = from
		}
	default:
		panic("harness: unknown op kind " + op.Kind)
	}
	res.Done = true
	t.Local = nil
}

func (w *World) publish(op *Op, m *mimetype.MIME, res *OpRes, ti, oi int) {
	if op.Slot <= 0 || op.Slot >= len(w.slots) || op.Early {
		// (a value handed over early is not published a second time: that would order the
		// producer's own accessor calls before every later use by somebody else)
		return
	}
	sl := &w.slots[op.Slot]
	sl.mu.Lock()
	sl.m, sl.obs, sl.obsSet, sl.set, sl.from = m, res.R, true, true, [2]int{ti, oi}
	sl.mu.Unlock()
}

// handOver publishes a value the producer has NOT looked at yet (a result handed
// to another goroutine as it came back): whatever the first accessor call does
// to the value then happens without any ordering between the two callers.
func (w *World) handOver(t *core.Task, op *Op, m *mimetype.MIME, ti, oi int) {
	if !op.Early || op.Slot <= 0 || op.Slot >= len(w.slots) {
		return
	}
	sl := &w.slots[op.Slot]
	sl.mu.Lock()
	sl.m, sl.obsSet, sl.set, sl.from = m, false, true, [2]int{ti, oi}
	sl.mu.Unlock()
	t.Yield(core.KHandoff, nil, "slot-early", int64(op.Slot))
}

func init() {
	simio.SniffHook = func(b []byte) {
		if len(b) > 64 {
			b = b[:64]
		}
		_ = mimetype.Detect(append([]byte(nil), b...))
	}
}

// Observer wiring: the os shim tells us about simulated streams it opens.
func init() {
	shimos.Observer = func(ev, name string, s *simio.Stream) {
		t := core.Cur()
		if t == nil {
			return
		}
		c, ok := t.Local.(*opCtx)
		if !ok || c == nil {
			return
		}
		switch ev {
		case "open":
			c.res.Opens++
			c.res.Stream = s
		case "close":
			c.res.Closes++
		}
	}
}

// RunResult is a finished run.
type RunResult struct {
	Plan *Plan
	W    *World
	Out  *core.Outcome
}

// Run executes a plan under the kernel. The tree is pristine before and after.
func Run(k *core.Kernel, p *Plan, seed uint64, replay *core.Decisions, realDir string, trace bool) (*RunResult, error) {
	lib.Reset()
	w := Materialise(p, realDir)
	mimetype.SetLimit(p.Limit0)
	if len(p.Pre) > 0 {
		// The preliminary Extend calls run as a simulation of their own (one caller):
		// whatever the library starts in the background while registering a format is
		// scheduled by the baton like everything else, not by the Go runtime.
		var preErr error
		pre := k.Run(&core.RunSpec{Bodies: []func(t *core.Task){func(t *core.Task) { preErr = w.RunPre() }},
			Sched: core.SchedSpec{Kind: "random"}, Pool: "lifo", Seed: core.Mix(seed, 0x9e3779b9), MaxSteps: 200000})
		if preErr != nil {
			lib.Reset()
			return nil, preErr
		}
		if pre.Class != "" || pre.Tainted {
			// the registrations themselves deadlocked or panicked: that is the run's outcome
			w.Cleanup()
			pre.Tainted = true
			for len(pre.Invoke) < len(p.Tasks) {
				pre.Invoke, pre.Return = append(pre.Invoke, nil), append(pre.Return, nil)
			}
			if pre.Class == "" {
				pre.Class, pre.Msg = "budget", "the preliminary registrations did not finish"
			}
			return &RunResult{Plan: p, W: w, Out: pre}, nil
		}
	}
	bodies := make([]func(t *core.Task), len(p.Tasks))
	for ti := range p.Tasks {
		ti := ti
		bodies[ti] = func(t *core.Task) {
			for oi := range p.Tasks[ti] {
				w.Exec(t, ti, oi)
			}
		}
	}
	spec := &core.RunSpec{Bodies: bodies, Sched: p.Sched, Pool: p.Pool, Seed: seed, Replay: replay, MaxSteps: p.MaxSteps, Trace: trace}
	out := k.Run(spec)
	w.Cleanup()
	if !out.Tainted {
		lib.Reset()
	}
	return &RunResult{Plan: p, W: w, Out: out}, nil
}

// Failure is one oracle verdict against a run.
type Failure struct {
	Class string `json:"class"`
	Msg   string `json:"message"`
}

// KernelFailures turns kernel-level outcomes into failures shared by all
// properties. Data races count only for the properties that state race
// freedom (C06) or whose violation a race between detections is (C04).
func KernelFailures(rr *RunResult, withRaces bool) []Failure {
	var fs []Failure
	o := rr.Out
	switch o.Class {
	case "deadlock", "panic", "misuse":
		msg := o.Msg
		if o.Class == "panic" {
			msg = firstLines(msg, 12)
		}
		fs = append(fs, Failure{o.Class, msg})
	}
	if o.Races > 0 && withRaces {
		fs = append(fs, Failure{"race", fmt.Sprintf("%d data race report(s) during the run", o.Races)})
	}
	return fs
}

func firstLines(s string, n int) string {
	out, c := []byte{}, 0
	for i := 0; i < len(s); i++ {
		if s[i] == '\n' {
			c++
			if c >= n {
				break
			}
		}
		out = append(out, s[i])
	}
	return string(out)
}

// PreFailures reports preliminary Extend calls that could not find their parent.
func PreFailures(rr *RunResult) []Failure {
	var fs []Failure
	for _, e := range rr.W.PreSkipped {
		fs = append(fs, Failure{"mismatch", fmt.Sprintf("Lookup(%q) returned nil although the format carrying that name had been registered (sequentially, before the tasks started); extension #%d could not be attached", e.Parent, e.ID)})
	}
	return fs
}

// BufferFailures checks the input buffers the caller lent to the library.
func BufferFailures(rr *RunResult) []Failure {
	var fs []Failure
	w := rr.W
	for i, in := range rr.Plan.Shared {
		if !canaryIntact(w.Shared[i], in.Bytes()) {
			fs = append(fs, Failure{"buffer-modified", fmt.Sprintf("shared input buffer %d (%s) or its spare capacity was modified", i, in)})
		}
	}
	for ti, ops := range rr.Plan.Tasks {
		for oi := range ops {
			r := &w.Res[ti][oi]
			if r.Done && r.BufChanged {
				fs = append(fs, Failure{"buffer-modified", fmt.Sprintf("t%d op%d %s: the caller's buffer or its spare capacity was modified", ti, oi, ops[oi])})
			}
		}
	}
	return fs
}

// AliasMemoryFailures checks the alias backing arrays the caller lent to Extend.
func AliasMemoryFailures(rr *RunResult) []Failure {
	var fs []Failure
	w := rr.W
	// shared alias arrays: every cell must hold what the plan put there
	want := make([][]string, len(w.Arrays))
	for k, a := range w.Arrays {
		want[k] = make([]string, len(a))
		for i := range a {
			want[k][i] = CanaryString(k, i)
		}
	}
	place := func(e *model.Ext) {
		if e != nil && e.Arr >= 0 && e.Arr < len(want) {
			copy(want[e.Arr][e.Off:], e.Aliases)
		}
	}
	for i := range rr.Plan.Pre {
		place(rr.Plan.Pre[i].Ext)
	}
	for _, ops := range rr.Plan.Tasks {
		for oi := range ops {
			place(ops[oi].Ext)
		}
	}
	for k, a := range w.Arrays {
		for i := range a {
			if a[i] != want[k][i] {
				fs = append(fs, Failure{"caller-memory-written", fmt.Sprintf("alias backing array %d cell %d: caller stored %q, now holds %q", k, i, want[k][i], a[i])})
				break
			}
		}
	}
	for ti, ops := range rr.Plan.Tasks {
		for oi := range ops {
			r := &w.Res[ti][oi]
			if !r.Done {
				continue
			}
			for i := r.BackingLen; i < len(r.Backing); i++ {
				if r.Backing[i] != "" {
					fs = append(fs, Failure{"caller-memory-written", fmt.Sprintf("t%d op%d: spare capacity of the caller's alias slice now holds %q", ti, oi, r.Backing[i])})
					break
				}
			}
			for i := 0; i < r.BackingLen && i < len(r.Backing); i++ {
				if r.Backing[i] != ops[oi].Ext.Aliases[i] {
					fs = append(fs, Failure{"caller-memory-written", fmt.Sprintf("t%d op%d: alias %d of the caller's slice changed to %q", ti, oi, i, r.Backing[i])})
					break
				}
			}
		}
	}
	return fs
}
