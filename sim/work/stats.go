package work

import (
	"sort"

	"github.com/gabriel-vasile/mimetype/internal/verifsim/core"
)

// Stats accumulates what a batch of runs covered.
type Stats struct {
	Runs         int                 `json:"runs"`
	Ops          int                 `json:"ops"`
	Steps        int                 `json:"steps"`
	Switches     int                 `json:"switches"`
	Probes       map[string]int      `json:"probes"`
	Faults       map[string]int      `json:"fault_counts"`
	Distinct     map[uint64]struct{} `json:"-"`
	SchedSigs    map[uint64]struct{} `json:"-"`
	ConfSigs     map[uint64]struct{} `json:"-"`
	Samples      []any               `json:"samples"`
	Inconclusive int                 `json:"inconclusive"`
	WithFaults   int                 `json:"runs_with_faults"`
	FaultFree    int                 `json:"runs_fault_free"`
}

// NewStats returns empty statistics.
func NewStats() *Stats {
	return &Stats{Probes: map[string]int{}, Faults: map[string]int{}, Distinct: map[uint64]struct{}{},
		SchedSigs: map[uint64]struct{}{}, ConfSigs: map[uint64]struct{}{}}
}

// Probe bumps a probe counter.
func (s *Stats) Probe(name string) { s.Probes[name]++ }

// Fault bumps a fault counter (a fault that actually fired).
func (s *Stats) Fault(name string) { s.Faults[name]++ }

// Mark records a distinct non-trivial case.
func (s *Stats) Mark(h uint64) { s.Distinct[h] = struct{}{} }

// AddOutcome folds kernel-level numbers of a run into the statistics.
func (s *Stats) AddOutcome(o *core.Outcome) {
	s.Runs++
	s.Steps += o.Steps
	s.Switches += o.Switches
	for k, v := range o.Probes {
		s.Probes[k] += v
	}
	s.SchedSigs[o.SchedSig] = struct{}{}
	s.ConfSigs[o.ConflictSig] = struct{}{}
}

// Sample keeps up to n samples.
func (s *Stats) Sample(v any, n int) {
	if len(s.Samples) < n {
		s.Samples = append(s.Samples, v)
	}
}

// Keys returns the sorted keys of a set (for reproducible output).
func Keys(m map[uint64]struct{}) []uint64 {
	ks := make([]uint64, 0, len(m))
	for k := range m {
		ks = append(ks, k)
	}
	sort.Slice(ks, func(i, j int) bool { return ks[i] < ks[j] })
	return ks
}

// Prop is a property's workload generator and oracle.
type Prop interface {
	// Plan returns run number idx of this worker's share, or nil when the
	// share is exhausted (enumerations) / never (sampled workloads).
	Plan(seed uint64, tier string, worker, workers, idx int) *Plan
	// Check judges a finished run and updates the statistics.
	Check(rr *RunResult, st *Stats) []Failure
	// Rule describes generation and what counts as distinct and non-trivial.
	Rule() string
}

// Props is the registry.
var Props = map[string]Prop{}

func hashStr(s string) uint64 {
	h := uint64(0xcbf29ce484222325)
	for i := 0; i < len(s); i++ {
		h ^= uint64(s[i])
		h *= 0x100000001b3
	}
	return h
}
