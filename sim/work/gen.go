package work

import (
	"encoding/hex"
	"fmt"
	"strings"

	"github.com/gabriel-vasile/mimetype/internal/verifsim/core"
	"github.com/gabriel-vasile/mimetype/internal/verifsim/inputs"
	"github.com/gabriel-vasile/mimetype/internal/verifsim/lib"
	"github.com/gabriel-vasile/mimetype/internal/verifsim/model"
	"github.com/gabriel-vasile/mimetype/internal/verifsim/simio"
)

// universeMenu is the pool of small inputs extension workloads detect.
var universeMenu = []inputs.Input{
	{Fam: "text", N: 40}, {Fam: "text", N: 200, Seed: 9}, {Fam: "json", N: 60}, {Fam: "geojson"}, {Fam: "geojson", N: 80, V: 2},
	{Fam: "har", V: 1}, {Fam: "gltf"}, {Fam: "html_meta", N: 20, V: 1}, {Fam: "xml_enc", N: 10}, {Fam: "zip", N: 30},
	{Fam: "docx", N: 20, P: 50}, {Fam: "ole", N: 600}, {Fam: "png", N: 32}, {Fam: "gif", N: 8}, {Fam: "pdf", N: 30},
	{Fam: "random", N: 64, Seed: 3}, {Fam: "empty"}, {Fam: "csv", N: 4, V: 3}, {Fam: "ndjson", N: 4}, {Fam: "shebang", V: 0, N: 5},
	{Fam: "svg", N: 10}, {Fam: "text_nul", N: 100, P: 50}, {Fam: "latin1", N: 40, P: 5}, {Fam: "gzip", N: 10}, {Fam: "elf", N: 16},
	{Fam: "tar", N: 20}, {Fam: "sample", V: 0}, {Fam: "sample", V: 3}, {Fam: "sample", V: 7}, {Fam: "sample", V: 10},
	{Fam: "bom8", V: 0, P: 1}, {Fam: "bom8", V: 3}, {Fam: "utf8", N: 90, V: 3}, {Fam: "utf8", N: 40, V: 1, P: 1}, {Fam: "json_trunc", N: 120, P: 70}, {Fam: "json_bad", N: 120, P: 40, V: 1}, {Fam: "tsv", N: 3, V: 2}, {Fam: "rtf", N: 10},
}

// parents lists attachment points (names given to Lookup) and the input
// families whose detection path passes through them.
var parents = []struct {
	Name string
	Fams []string
}{
	{"", nil},
	{"", nil},
	{"text/plain", []string{"text", "json", "geojson", "har", "gltf", "html_meta", "xml_enc", "csv", "ndjson", "shebang", "svg", "latin1", "json_trunc", "json_bad", "tsv", "rtf", "bom8", "utf8"}},
	{"application/json", []string{"json", "geojson", "har", "gltf", "json_trunc"}},
	{"application/geo+json", []string{"geojson"}},
	{"text/html", []string{"html_meta"}},
	{"text/xml", []string{"xml_enc"}},
	{"application/xml", []string{"xml_enc"}},
	{"application/zip", []string{"zip", "docx"}},
	{"application/x-zip-compressed", []string{"zip", "docx"}},
	{"application/vnd.openxmlformats-officedocument.wordprocessingml.document", []string{"docx"}},
	{"application/x-ole-storage", []string{"ole"}},
	{"image/png", []string{"png"}},
	{"application/pdf", []string{"pdf"}},
	{"text/csv", []string{"csv"}},
	{"image/svg+xml", []string{"svg"}},
	{"application/gzip", []string{"gzip"}},
}

func pickUniverse(r *core.Rand, n int) []inputs.Input {
	idx := r.Intn(len(universeMenu))
	var u []inputs.Input
	seen := map[int]bool{}
	for len(u) < n {
		if !seen[idx] {
			seen[idx] = true
			u = append(u, universeMenu[idx])
		}
		idx = r.Intn(len(universeMenu))
	}
	return u
}

func famIn(f string, fams []string) bool {
	for _, x := range fams {
		if x == f {
			return true
		}
	}
	return false
}

// extGen builds extension specs with unique names.
type extGen struct {
	r        *core.Rand
	universe []inputs.Input
	limits   []uint32
	next     int
	made     []*model.Ext
	arrays   []int // shared arrays: lengths
	arrUsed  []int // next free offset per array
	// names that are carried by more than one registration, or used to look a
	// parent up: a type is re-registered only while nobody attaches through it,
	// and nobody attaches through it afterwards (keeps parents unambiguous
	// under every interleaving).
	dupName    map[string]bool
	parentName map[string]bool
	// charsetNamesOn: this run registers extensions named like the charset-bearing
	// built-ins; it then never looks those three names up nor attaches through them.
	charsetNamesOn bool
	// collideOn: this run lets formats share their type AND file extension: an
	// extension may repeat those of an earlier extension hanging somewhere else, or
	// those of a built-in format (a more specific JSON registered on the root, ...).
	// Such names are ambiguous for Lookup (which of the equally named nodes it reaches
	// first depends on the built-in layout): they are never looked up and never serve
	// as a parent handle in that run - decided when the first carrier is created.
	predOn            *inputs.Input // the next predicate is modelled on this input
	pendingTrapParent *model.Ext    // the accepting extension a trap hangs on (to be registered first)
	collideOn         bool
	ambiguous         map[string]bool
	twinnable         []*model.Ext
	builtinDup        []string // built-in names reserved for duplication in this run
}

// extMenu are file name extensions: a name says nothing about the content.
var extMenu = []string{".csv", ".json", ".jar", ".svg", ".txt", ".zip", ".xml", ".html", ".png", ".tar", ".JSON", ".geojson", ".ndjson", ".mp4", ".mov", ".docx", ".xlsx", ".apk", ".epub", ".ogg", ".wav", ".har", ".gltf", ".tsv", ".dat", ""}

// nameExt draws a name extension for a file: mostly none, sometimes one from the
// menu, sometimes the extension the library itself gives to ANOTHER sample.
func nameExt(r *core.Rand) string {
	switch r.Intn(6) {
	case 0:
		return extMenu[r.Intn(len(extMenu))]
	case 1:
		if n := len(inputs.Corpus()); n > 0 {
			b := lib.B(inputs.Input{Fam: "corpus", V: r.Intn(n)}.Bytes(), 0)
			if !b.Nil && len(b.Chain) > 0 {
				return b.Chain[0].Ext
			}
		}
	}
	return ""
}

// bigLimit draws a limit far above every input: code paths that size, pool or
// grow buffers by the limit (thresholds at 64 KiB, 1 MiB, 16 MiB, ...) are only
// entered then. Bounded by what a limit-sized allocation costs per call.
func bigLimit(r *core.Rand) uint32 {
	return []uint32{65537, 1<<20 + 1, 1<<20 + 1, 1<<24 + 1, 1<<24 + 1, 1<<24 + 1, 1 << 25, 1<<26 + 7, 1<<27 + 3}[r.Intn(9)]
}

// corpusParent picks an attachment point from the detection path of one of the
// run's corpus inputs (the repository's own sample of some format): any built-in
// node at any depth that a real sample reaches - not only the handful of names in
// the parents table. The node must be found by Lookup under its own name.
func (g *extGen) corpusParent() (string, *inputs.Input) {
	var cs []inputs.Input
	for _, in := range g.universe {
		if in.Fam == "corpus" {
			cs = append(cs, in)
		}
	}
	if len(cs) == 0 {
		return "", nil
	}
	in := cs[g.r.Intn(len(cs))]
	b := lib.B(in.Bytes(), 0)
	if b.Nil || len(b.Chain) < 2 {
		return "", nil
	}
	k := g.r.Intn(len(b.Chain) - 1) // not the root
	name := lib.Bare(b.Chain[k].Str)
	if lib.IsCharsetName(name) && g.charsetNamesOn || g.ambiguous[name] || g.dupName[name] {
		return "", nil
	}
	lb := lib.LB(name)
	if lb.Nil || len(lb.Chain) != len(b.Chain)-k {
		return "", nil
	}
	for i := range lb.Chain {
		if lib.Bare(lb.Chain[i].Str) != lib.Bare(b.Chain[k+i].Str) || lb.Chain[i].Ext != b.Chain[k+i].Ext {
			return "", nil // another node carries that name first
		}
	}
	return name, &in
}

// trap makes a detector with a bug: it rejects everything and panics on the
// poison inputs of variant v. Binary poison reaches only root-level detectors
// (and what hangs below an extension accepting it); textual poison also reaches
// what hangs on text/plain.
func (g *extGen) trap(v int) *model.Ext {
	id := g.next
	g.next++
	e := &model.Ext{ID: id, ParentExt: -1, Arr: -1, Mime: fmt.Sprintf("x-verif/trap%d", id), Extension: fmt.Sprintf(".t%d", id)}
	e.Pred = model.Pred{Never: true, PanicPrefix: hex.EncodeToString([]byte(inputs.PoisonPrefix(v)))}
	if v%2 == 1 && g.r.Chance(1, 2) && !g.charsetNamesOn && !g.ambiguous["text/plain"] {
		e.Parent = "text/plain"
	}
	// below an extension that accepts the poison: the panic comes mid-descent
	if g.r.Chance(1, 2) {
		pre := []byte(inputs.PoisonPrefix(v))
		a := g.accepting(e.Parent, pre)
		a.Pred = model.Pred{Prefix: hex.EncodeToString(pre[:4])}
		e.Parent, e.ParentExt = a.Mime, a.ID
		if g.parentName == nil {
			g.dupName, g.parentName = map[string]bool{}, map[string]bool{}
		}
		g.parentName[a.Mime] = true
		g.pendingTrapParent = a
	}
	g.made = append(g.made, e)
	return e
}

// builtinDupMenu are built-in formats an extension may be named after in a collide run.
var builtinDupMenu = []string{"application/octet-stream", "application/octet-stream", "application/octet-stream", "application/octet-stream", "application/json", "application/zip", "image/png", "application/pdf", "text/csv", "application/gzip", "image/svg+xml", "application/x-ole-storage", "application/geo+json",
	// strings that built-in formats carry as ALIASES (kept only where the pristine tree confirms it)
	"application/x-zip-compressed", "audio/x-wav", "application/x-gzip", "audio/mp3", "application/x-pdf", "audio/x-flac", "image/x-ms-bmp", "application/x-tar", "text/x-csv", "application/x-rar", "video/x-m4v", "audio/x-m4a", "application/msword", "text/rtf", "application/x-javascript", "image/x-icon", "application/xml"}

// setCollide switches the collide mode on and reserves one or two built-in names.
func (g *extGen) setCollide() {
	g.collideOn = true
	g.ambiguous = map[string]bool{}
	for i, n := 0, g.r.Range(1, 3); i < n; i++ {
		nm := builtinDupMenu[g.r.Intn(len(builtinDupMenu))]
		if lib.LB(nm).Nil {
			continue // the pristine tree does not know that string
		}
		if !g.ambiguous[nm] {
			g.ambiguous[nm] = true
			g.builtinDup = append(g.builtinDup, nm)
		}
	}
}

// mayLookup says whether a name may be given to Lookup (or used to find a parent) in this run.
func (g *extGen) mayLookup(name string) bool {
	if strings.TrimSpace(name) == "" {
		return false // a blank alias is not a name
	}
	// every name may be looked up: the model knows which of several equally named
	// nodes Lookup's depth-first search reaches first (and accepts either where
	// that depends on the order of two built-in siblings)
	return true
}

// lookupNames are the names of an extension that may be given to Lookup.
func (g *extGen) lookupNames(e *model.Ext) []string {
	var out []string
	for _, n := range e.Names() {
		if g.mayLookup(n) {
			out = append(out, n)
		}
	}
	return out
}

func (g *extGen) pred(target []string) model.Pred {
	var p model.Pred
	// choose the input the predicate is modelled on
	var cands []inputs.Input
	for _, in := range g.universe {
		if target == nil || famIn(in.Fam, target) {
			cands = append(cands, in)
		}
	}
	if g.predOn != nil {
		cands = []inputs.Input{*g.predOn}
		g.predOn = nil
	}
	if len(cands) == 0 || g.r.Chance(1, 4) {
		cands = g.universe
	}
	b := cands[g.r.Intn(len(cands))].Bytes()
	switch g.r.Intn(10) {
	case 0:
		p.Never = true
	case 1, 2:
		// accepts everything that reaches it
	case 3, 4, 5:
		n := g.r.Range(1, 6)
		if n > len(b) {
			n = len(b)
		}
		p.Prefix = hex.EncodeToString(b[:n])
	case 6:
		if len(b) > 0 {
			p.Contains = 1 + int(b[g.r.Intn(len(b))])
		}
	case 7:
		p.MinLen = g.r.Range(0, len(b)+2)
	case 8:
		p.MaxLen = 1 + g.r.Range(0, len(b)+2)
	case 9:
		n := g.r.Range(1, 3)
		if n > len(b) {
			n = len(b)
		}
		p.Prefix = hex.EncodeToString(b[:n])
		p.MinLen = g.r.Range(0, len(b))
	}
	if len(g.limits) > 0 && g.r.Chance(1, 5) {
		l := g.limits[g.r.Intn(len(g.limits))]
		if g.r.Chance(2, 3) {
			p.LimitEq = int64(l) + 1
		} else {
			p.LimitNe = int64(l) + 1
		}
		p.Never = false
	}
	return p
}

// ext makes a new extension. onExt > 0 biases towards hanging it on an earlier extension.
func (g *extGen) ext() *model.Ext {
	id := g.next
	g.next++
	e := &model.Ext{ID: id, ParentExt: -1, Arr: -1,
		Mime: fmt.Sprintf("x-verif/e%d", id), Extension: fmt.Sprintf(".e%d", id)}
	var target []string
	if g.dupName == nil {
		g.dupName, g.parentName = map[string]bool{}, map[string]bool{}
	}
	attached := false
	var dupOf *model.Ext
	var named []*model.Ext // earlier extensions that carry a built-in format's name
	for _, m := range g.made {
		for _, nm := range g.builtinDup {
			if m.Mime == nm {
				named = append(named, m)
				break
			}
		}
	}
	if len(g.made) > 0 && (g.r.Chance(1, 3) || (len(named) > 0 && g.r.Chance(1, 2))) {
		p := g.made[g.r.Intn(len(g.made))]
		if len(named) > 0 && g.r.Chance(2, 3) {
			// what hangs below a format that shares its name with a built-in one (found through an alias)
			p = named[g.r.Intn(len(named))]
		}
		var names []string
		for _, nm := range p.Names() {
			if !g.dupName[nm] && !g.ambiguous[nm] && g.mayLookup(nm) {
				names = append(names, nm)
			}
		}
		if len(names) > 0 {
			e.Parent = names[g.r.Intn(len(names))]
			e.ParentExt = p.ID
			g.parentName[e.Parent] = true
			attached = true
		}
	}
	if !attached && len(g.made) > 0 && g.r.Chance(1, 7) {
		// register an existing type again on the same parent: the newer registration wins
		q := g.made[g.r.Intn(len(g.made))]
		if !g.parentName[q.Mime] {
			e.Mime, e.Parent, e.ParentExt = q.Mime, q.Parent, q.ParentExt
			g.dupName[q.Mime] = true
			attached = true
			// the second registration may repeat the first one's file extension and alias
			// list too (a format with two alternative signatures; set-up code that runs
			// twice): it is still a registration of its own, in front of everything
			// registered on that parent since
			if g.r.Chance(1, 2) {
				e.Extension = q.Extension
			}
			if g.r.Chance(1, 2) {
				free := true
				for _, a := range q.Aliases {
					free = free && !g.parentName[a]
				}
				if free {
					dupOf = q
				}
			}
		}
	}
	if g.r.Chance(1, 5) && g.charsetNamesOn {
		// an extension may re-use the name of a charset-bearing built-in type; such a
		// name is never looked up and never serves as a parent handle here (which of
		// the equally named nodes Lookup reaches first depends on the built-in layout)
		nm := lib.CharsetNames[g.r.Intn(len(lib.CharsetNames))]
		if !g.dupName[nm] {
			e.Mime = nm
			g.dupName[nm] = true
		}
	}
	if !attached && g.r.Chance(1, 3) {
		if name, in := g.corpusParent(); name != "" {
			e.Parent, attached = name, true
			g.predOn = in
		}
	}
	if !attached {
		p := parents[g.r.Intn(len(parents))]
		for (g.charsetNamesOn && lib.IsCharsetName(p.Name)) || g.ambiguous[p.Name] {
			p = parents[g.r.Intn(len(parents))]
		}
		e.Parent, target = p.Name, p.Fams
	}
	twin := false
	if g.collideOn && dupOf == nil && !g.dupName[e.Mime] && g.r.Chance(1, 3) {
		if len(g.twinnable) > 0 && g.r.Chance(1, 2) {
			// same type, same file extension (maybe same aliases) as an earlier extension, wherever that one hangs
			q := g.twinnable[g.r.Intn(len(g.twinnable))]
			e.Mime, e.Extension, twin = q.Mime, q.Extension, true
			if g.r.Chance(1, 2) {
				dupOf = q
			}
		} else if len(g.builtinDup) > 0 {
			nm := g.builtinDup[g.r.Intn(len(g.builtinDup))]
			if b := lib.LB(nm); !b.Nil && len(b.Chain) > 0 {
				e.Mime, e.Extension, twin = nm, b.Chain[0].Ext, true
			}
		}
	}
	if g.collideOn && !twin && dupOf == nil && !g.dupName[e.Mime] && g.r.Chance(1, 5) {
		// a type written in a non-canonical way (upper case, a parameter, white space),
		// of its own or of another format: a different string, hence a different name for
		// Lookup, although Is() treats the spellings alike
		base := e.Mime
		if g.r.Chance(1, 2) {
			if len(g.twinnable) > 0 && g.r.Chance(1, 2) {
				base = g.twinnable[g.r.Intn(len(g.twinnable))].Mime
			} else if len(g.builtinDup) > 0 {
				base = g.builtinDup[g.r.Intn(len(g.builtinDup))]
			}
		}
		switch g.r.Intn(3) {
		case 0:
			e.Mime = strings.ToUpper(base[:1]) + base[1:]
		case 1:
			e.Mime = fmt.Sprintf("%s; v=%d", base, id)
		default:
			e.Mime = " " + base
		}
		g.ambiguous[e.Mime] = true
	}
	e.Pred = g.pred(target)
	if dupOf != nil {
		e.Aliases = append([]string(nil), dupOf.Aliases...)
		for _, a := range e.Aliases {
			g.dupName[a] = true
		}
		if g.r.Chance(1, 3) {
			e.Pred = dupOf.Pred
		}
	} else {
		for j, n := 0, g.r.Intn(4); j < n; j++ {
			e.Aliases = append(e.Aliases, fmt.Sprintf("x-verif/a%d-%d", id, j))
		}
		if g.collideOn && len(e.Aliases) > 0 && g.r.Chance(1, 6) {
			// a blank entry in the alias list (a split of ",a,b"): nothing to look up, nothing
			// to compare - and nothing that entitles the library to rearrange the caller's slice
			e.Aliases[g.r.Intn(len(e.Aliases))] = []string{"", " ", "\t"}[g.r.Intn(3)]
		}
		if g.collideOn && g.r.Chance(1, 4) {
			// an alias that is byte-equal to the type of another format
			var nm string
			if len(g.twinnable) > 0 && g.r.Chance(1, 2) {
				nm = g.twinnable[g.r.Intn(len(g.twinnable))].Mime
			} else if len(g.builtinDup) > 0 {
				nm = g.builtinDup[g.r.Intn(len(g.builtinDup))]
			}
			if nm != "" && nm != e.Mime {
				if len(e.Aliases) == 0 {
					e.Aliases = append(e.Aliases, nm)
				} else {
					e.Aliases[g.r.Intn(len(e.Aliases))] = nm
				}
			}
		}
	}
	if g.collideOn && !twin && dupOf == nil && !attachedAsParentName(g, e) && g.r.Chance(1, 4) {
		// others may be named after this one later: its names are out of bounds for Lookup from the start
		for _, nm := range e.Names() {
			g.ambiguous[nm] = true
		}
		g.twinnable = append(g.twinnable, e)
	}
	if twin {
		for _, nm := range e.Names() {
			g.ambiguous[nm] = true
		}
	}
	e.SpareCap = []int{0, 0, 1, 2, 8}[g.r.Intn(5)]
	if len(g.arrays) > 0 && len(e.Aliases) > 0 && g.r.Chance(1, 3) {
		k := g.r.Intn(len(g.arrays))
		if g.arrUsed[k]+len(e.Aliases) <= g.arrays[k] {
			e.Arr, e.Off = k, g.arrUsed[k]
			// sometimes leave no gap: the next registration's aliases sit in this one's spare capacity
			g.arrUsed[k] += len(e.Aliases)
			if g.r.Chance(1, 2) {
				g.arrUsed[k]++
			}
			if e.SpareCap == 0 {
				e.SpareCap = g.r.Range(1, 3)
			}
		}
	}
	g.made = append(g.made, e)
	return e
}

var deliveryMenu = [][]int{nil, {1}, {3}, {7, 0, 2}, {64}, {500, 1}, {0, 4096}}

func randDelivery(r *core.Rand, n int, faultChance int) *simio.Delivery {
	d := &simio.Delivery{FaultAt: -1, Chunks: deliveryMenu[r.Intn(len(deliveryMenu))]}
	if n > 400 && len(d.Chunks) > 0 && d.Chunks[0] < 7 {
		d.Chunks = []int{64, 500}
	}
	if n > 1<<20 && len(d.Chunks) > 0 {
		d.Chunks = []int{n / 512, 4096}
	}
	d.EOFWithData = r.Chance(1, 4)
	d.Scribble = r.Chance(1, 6)
	d.Sniff = r.Chance(1, 12)
	if faultChance > 0 && r.Chance(faultChance, 100) {
		d.FaultAt = r.Range(0, n)
		d.FaultWithData = r.Chance(1, 2)
		if r.Chance(1, 3) {
			d.ErrWraps = 1 + r.Intn(simio.NFlavours-1)
		}
		d.Recover = r.Chance(1, 4)
	}
	return d
}

// pathOf lists, from the root down, the names of the built-in formats a
// member of the family is normally classified under (used only to aim
// extensions at a detection path; the oracle never relies on it).
func pathOf(fam string) []string {
	switch fam {
	case "json", "json_trunc", "har", "gltf":
		return []string{"", "text/plain", "application/json"}
	case "geojson":
		return []string{"", "text/plain", "application/json", "application/geo+json"}
	case "html_meta":
		return []string{"", "text/plain", "text/html"}
	case "xml_enc":
		return []string{"", "text/plain", "text/xml"}
	case "csv":
		return []string{"", "text/plain", "text/csv"}
	case "svg":
		return []string{"", "text/plain", "image/svg+xml"}
	case "text", "latin1", "ndjson", "shebang", "tsv", "rtf", "json_bad", "bom8", "text_nul", "utf8":
		return []string{"", "text/plain"}
	case "docx":
		return []string{"", "application/zip", "application/vnd.openxmlformats-officedocument.wordprocessingml.document"}
	case "zip":
		return []string{"", "application/zip"}
	case "png":
		return []string{"", "image/png"}
	case "pdf":
		return []string{"", "application/pdf"}
	case "ole":
		return []string{"", "application/x-ole-storage"}
	case "gzip":
		return []string{"", "application/gzip"}
	}
	return []string{""}
}

// accepting makes an extension on parent (a built-in name or "") whose predicate accepts x.
func (g *extGen) accepting(parent string, x []byte) *model.Ext {
	return g.acceptingOn(parent, nil, x)
}

// acceptingOn hangs the new extension on an earlier extension when on != nil.
func (g *extGen) acceptingOn(parent string, on *model.Ext, x []byte) *model.Ext {
	id := g.next
	g.next++
	e := &model.Ext{ID: id, ParentExt: -1, Arr: -1, Parent: parent,
		Mime: fmt.Sprintf("x-verif/e%d", id), Extension: fmt.Sprintf(".e%d", id)}
	if on != nil {
		names := g.lookupNames(on)
		e.Parent, e.ParentExt = names[g.r.Intn(len(names))], on.ID
		if g.parentName == nil {
			g.dupName, g.parentName = map[string]bool{}, map[string]bool{}
		}
		g.parentName[e.Parent] = true
	}
	switch g.r.Intn(4) {
	case 0:
	case 1:
		n := g.r.Range(1, 4)
		if n > len(x) {
			n = len(x)
		}
		e.Pred.Prefix = hex.EncodeToString(x[:n])
	case 2:
		e.Pred.MinLen = g.r.Range(0, len(x))
	case 3:
		if len(x) > 0 {
			e.Pred.Contains = 1 + int(x[g.r.Intn(len(x))])
		}
	}
	for j, n := 0, g.r.Intn(3); j < n; j++ {
		e.Aliases = append(e.Aliases, fmt.Sprintf("x-verif/a%d-%d", id, j))
	}
	e.SpareCap = g.r.Intn(3)
	g.made = append(g.made, e)
	return e
}

// attachedAsParentName reports whether one of e's names already serves as a parent handle.
func attachedAsParentName(g *extGen, e *model.Ext) bool {
	for _, nm := range e.Names() {
		if g.parentName[nm] || g.dupName[nm] {
			return true
		}
	}
	return false
}
