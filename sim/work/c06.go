package work

import (
	"fmt"
	"sort"
	"strconv"
	"strings"
	"time"

	"github.com/anishathalye/porcupine"

	"github.com/gabriel-vasile/mimetype/internal/verifsim/core"
	"github.com/gabriel-vasile/mimetype/internal/verifsim/inputs"
	"github.com/gabriel-vasile/mimetype/internal/verifsim/lib"
	"github.com/gabriel-vasile/mimetype/internal/verifsim/model"
)

// C06: safe for concurrent use. Interleavings of readers (Detect*, Lookup,
// accessors) and writers (SetLimit, Extend) at every synchronisation point and
// inside caller-supplied code running under the lock; judged by the race
// detector, by deadlock/panic detection and by a linearizability check of the
// recorded history against the reference model.

type c06 struct{}

func init() { Props["C06"] = &c06{} }

func (c *c06) Rule() string {
	return "first (race build) two callers detecting every entry of the repository's sample table at once; then seeded schedules (uniform random walk, PCT with 1-3 priority change points, run-to-completion with random preemptions) over 2-4 tasks x 1-8 operations drawn from Detect, DetectReader over a chunked (sometimes failing) simulated reader, DetectFile on a simulated file, Lookup followed by accessors, SetLimit with run-unique values, package-level Extend and Lookup(p).Extend on built-ins and earlier extensions with yielding DSL predicates and caller-owned alias slices of varying spare capacity (some sharing one backing array that another task keeps reading), accessors on values produced by another task (some handed over before their producer looked at them), shared input buffers, limits up to 128 MiB, colliding names, detections-only runs over the C04 inputs; pool policy adversarial. Each run is judged by (1) the race detector (race build), (2) deadlock / panic / missing return, (3) porcupine over the invoke/return history against the model (limit sampled at one instant of the call, extension set at one instant of the call), (4) canaries in caller-owned memory. Non-trivial = at least one writer operation overlapped a reader operation in the recorded history; distinct = distinct conflict signatures (order of lock grants, atomic accesses and pool hand-overs) among those"
}

var c06LimitPool = []uint32{0, 1, 5, 16, 17, 64, 100, 300, 1000, 3072, 4096, 5000}

func c06Universe(r *core.Rand, limits []uint32) []inputs.Input {
	u := pickUniverse(r, r.Range(2, 4))
	if r.Chance(1, 2) {
		u = append(u, inputs.Input{Fam: "corpus", V: r.Intn(1 << 12)})
	}
	// limit-sensitive members: a NUL just beyond / before the candidate limits
	for i, n := 0, r.Range(1, 3); i < n; i++ {
		l := int(limits[r.Intn(len(limits))])
		if l > 100000 {
			continue // a limit far above every input: nothing to place around it
		}
		p := l - 1 + r.Intn(3)
		if p < 0 {
			p = 2
		}
		u = append(u, inputs.Input{Fam: "text_nul", N: p + r.Range(2, 40), P: p, Seed: uint64(r.Intn(50))})
	}
	if r.Chance(1, 2) {
		u = append(u, inputs.Input{Fam: "csv", N: r.Range(3, 40), V: r.Range(2, 4)})
	}
	if r.Chance(1, 3) {
		u = append(u, inputs.Input{Fam: "docx", N: 20, P: []int{10, 60, 280}[r.Intn(3)]})
	}
	return u
}

// floodPlan: two or three callers, a hundred and more small detections each, every
// one with a result string of its own (a declared charset label nobody used
// before). Whatever the library keeps per distinct result - an interning table, a
// cache with generations - is filled, rotated and evicted within one run.
func floodPlan(r *core.Rand, prop string) *Plan {
	p := &Plan{Prop: prop, Limit0: []uint32{3072, 0, 300}[r.Intn(3)], MaxSteps: 4000000, Pool: "steal",
		Sched: core.SchedSpec{Kind: "random"}, Slots: 4}
	nt := r.Range(2, 3)
	base := r.Intn(1 << 20)
	n := 0
	for t := 0; t < nt; t++ {
		var ops []Op
		for i, m := 0, r.Range(200, 260); i < m; i++ {
			// (an unknown encoding name in an XML declaration is not echoed, a charset label in an HTML meta tag is)
			in := inputs.Input{Fam: []string{"html_meta", "html_meta", "html_meta", "html_meta", "html_meta", "html_meta", "html_meta", "xml_enc"}[r.Intn(8)], N: r.Range(0, 30), V: 12 + r.Intn(4), Seed: uint64(base + n)}
			if r.Chance(1, 4) && n > 0 {
				in.Seed = uint64(base + r.Intn(n)) // one that was seen before (maybe long ago)
			}
			n++
			ops = append(ops, Op{Kind: "detect", In: &in})
		}
		p.Tasks = append(p.Tasks, ops)
	}
	return p
}

// throngPlan: 66-90 callers at once, one detection each, of inputs that registered
// extensions accept, under the "hold" policy (everybody who enters a user-supplied
// detector stays there while anybody else can still run): whatever counts or
// bounds concurrent activations (a recursion guard shared between goroutines, a
// fixed number of slots) is driven past its bound.
func throngPlan(r *core.Rand) *Plan {
	p := &Plan{Prop: "C06", Limit0: []uint32{3072, 0, 64}[r.Intn(3)], MaxSteps: 4000000, Pool: "steal",
		Sched: core.SchedSpec{Kind: "hold"}, Slots: 4}
	universe := pickUniverse(r, 3)
	g := &extGen{r: r, universe: universe, limits: []uint32{p.Limit0}}
	var accepted []inputs.Input
	for i, n := 0, r.Range(1, 3); i < n; i++ {
		in := universe[r.Intn(len(universe))]
		path := pathOf(in.Fam)
		e := g.accepting(path[r.Intn(len(path))], lib.Header(in.Bytes(), p.Limit0))
		p.Pre = append(p.Pre, Op{Kind: "extend", Ext: e})
		accepted = append(accepted, in)
	}
	for t, n := 0, r.Range(66, 90); t < n; t++ {
		in := accepted[r.Intn(len(accepted))]
		if r.Chance(1, 6) {
			in = universe[r.Intn(len(universe))]
		}
		op := Op{Kind: "detect", In: &in}
		if r.Chance(1, 5) {
			op = Op{Kind: "reader", In: &in, Del: randDelivery(r, len(in.Bytes()), 0)}
		}
		p.Tasks = append(p.Tasks, []Op{op})
	}
	return p
}

func (c *c06) Plan(seed uint64, tier string, worker, workers, idx int) *Plan {
	p := c.plan(seed, tier, worker, workers, idx)
	r := core.NewRand(core.Mix(seed, 0xca11, uint64(worker), uint64(idx)))
	if !r.Chance(1, 14) {
		return p
	}
	// "callback" history: every registration moves in front of the run (no caller takes the
	// write lock while detections are under way) and the detectors consult the library themselves
	var tasks [][]Op
	for _, ops := range p.Tasks {
		var keep []Op
		for _, op := range ops {
			switch op.Kind {
			case "extend":
				p.Pre = append(p.Pre, op)
			case "extend-result":
			default:
				keep = append(keep, op)
			}
		}
		if len(keep) > 0 {
			tasks = append(tasks, keep)
		}
	}
	if len(tasks) == 0 || len(p.Pre) == 0 {
		return c.plan(seed, tier, worker, workers, idx)
	}
	p.Tasks = tasks
	mark := func(ops []Op) {
		for i := range ops {
			if e := ops[i].Ext; e != nil && e.Pred.CallsBack == 0 && e.Pred.PanicPrefix == "" {
				e.Pred.CallsBack = 1 + int(core.Mix(uint64(e.ID), seed)%4)
			}
		}
	}
	mark(p.Pre)
	for _, ops := range p.Tasks {
		mark(ops)
	}
	return p
}

func (c *c06) plan(seed uint64, tier string, worker, workers, idx int) *Plan {
	if idx < 1000000 {
		// the race phase starts with the systematic part: two callers detecting every
		// entry of the repository's sample table at the same time
		if sp := sweepPlanRace(seed, worker+idx*workers); sp != nil {
			sp.Prop, sp.Slots = "C06", 4
			return sp
		}
	}
	r := core.NewRand(core.Mix(seed, 0xc06, uint64(worker), uint64(idx)))
	if r.Chance(1, 50) {
		return floodPlan(r, "C06")
	}
	if r.Chance(1, 120) {
		return throngPlan(r)
	}
	if r.Chance(1, 8) {
		// detections only, over the pool-dirtying / shape-sensitive inputs of the C04
		// workload: races between two detections need particular input shapes
		// (deep paths, big CSV, ...) that the small inputs below never have
		p := (&c04{}).plan(seed, tier, worker, workers, idx)
		p.Prop = "C06"
		for len(p.Tasks) < 2 {
			p.Tasks = append(p.Tasks, append([]Op(nil), p.Tasks[0]...))
		}
		total := 0
		for ti := range p.Tasks {
			var ops []Op
			for _, op := range p.Tasks[ti] {
				if op.Kind != "setlimit" && total < 20 {
					ops = append(ops, op)
					total++
				}
			}
			p.Tasks[ti] = ops
		}
		return p
	}
	// run-unique limit values
	pool := append([]uint32(nil), c06LimitPool...)
	for i := len(pool) - 1; i > 0; i-- {
		j := r.Intn(i + 1)
		pool[i], pool[j] = pool[j], pool[i]
	}
	nLimits := r.Range(2, 5)
	limits := pool[:nLimits]
	if r.Chance(1, 8) {
		limits[r.Intn(nLimits)] = bigLimit(r)
	}
	p := &Plan{Prop: "C06", Limit0: limits[0], MaxSteps: 400000, Pool: []string{"adversarial", "steal", "lifo"}[r.Intn(3)]}
	p.Sched = core.SchedSpec{Kind: []string{"random", "random", "pct", "pct", "rtc", "hold"}[r.Intn(6)], D: r.Range(1, 3), Preempt: 50 + r.Intn(400), Horizon: r.Range(60, 400)}
	nextLimit := 1
	universe := c06Universe(r, limits)
	g := &extGen{r: r, universe: universe, limits: limits}
	if r.Chance(2, 3) {
		g.arrays = []int{r.Range(3, 8)}
		g.arrUsed = []int{0}
		p.Arrays = g.arrays
	}
	if r.Chance(1, 3) {
		for i, n := 0, r.Range(1, 2); i < n; i++ {
			p.Shared = append(p.Shared, universe[r.Intn(len(universe))])
		}
	}
	ladder := r.Chance(1, 3)
	g.charsetNamesOn = !ladder && r.Chance(1, 4)
	if !ladder && r.Chance(1, 5) {
		g.setCollide()
	}
	for i, n := 0, r.Intn(3); i < n; i++ {
		p.Pre = append(p.Pre, Op{Kind: "extend", Ext: g.ext()})
	}
	p.Slots = 4
	slot := 0
	if ladder {
		c06Ladder(r, p, g, universe)
		return p
	}

	nt := r.Range(2, 4)
	budget := 20 // operations per run: keeps the linearizability search tractable
	// swarm: every run draws its own operation mix; kinds may be absent or dominant
	base := []int{28, 15, 7, 15, 11, 16, 3, 5} // detect reader file lookup setlimit extend readarr use
	cum := make([]int, len(base))
	total := 0
	for i, w := range base {
		total += w * []int{0, 1, 1, 1, 3}[r.Intn(5)]
		cum[i] = total
	}
	if total == 0 {
		cum[0], total = 1, 1
		for i := 1; i < len(cum); i++ {
			cum[i] = 1
		}
	}
	pickKind := func() int {
		v := r.Intn(total)
		for i, c := range cum {
			if v < c {
				return i
			}
		}
		return 0
	}
	for t := 0; t < nt; t++ {
		var ops []Op
		for i, n := 0, r.Range(1, 8); i < n && budget > 0; i++ {
			budget--
			in := universe[r.Intn(len(universe))]
			op := Op{In: &in}
			switch e := pickKind(); {
			case e == 0:
				op.Kind = "detect"
				if len(p.Shared) > 0 && r.Chance(1, 3) {
					k := r.Intn(len(p.Shared))
					sh := p.Shared[k]
					op.In, op.Shared = &sh, k+1
				}
			case e == 1:
				op.Kind = "reader"
				op.Del = randDelivery(r, len(in.Bytes()), 15)
				if len(op.Del.Chunks) == 0 && r.Chance(2, 3) {
					op.Del.Chunks = []int{r.Range(1, 9)}
				}
			case e == 2:
				op.Kind = "file"
				op.Del = randDelivery(r, len(in.Bytes()), 10)
			case e == 3:
				op = Op{Kind: "lookup"}
				if len(g.made) > 0 && r.Chance(3, 4) {
					e := g.made[r.Intn(len(g.made))]
					names := g.lookupNames(e)
					if len(names) == 0 {
						names = []string{"text/csv"}
						e = nil
					}
					op.Name, op.Ext = names[r.Intn(len(names))], e
				} else {
					op.Name = parents[2+r.Intn(len(parents)-2)].Name
				}
			case e == 4:
				if nextLimit < len(limits) {
					op = Op{Kind: "setlimit", Limit: limits[nextLimit]}
					nextLimit++
				} else {
					op.Kind = "detect"
				}
			case e == 5:
				op = Op{Kind: "extend", Ext: g.ext()}
			case e == 6:
				if len(p.Arrays) > 0 {
					op = Op{Kind: "readarr", Arr: 0}
				} else {
					op.Kind = "detect"
				}
			default:
				if slot > 0 {
					op = Op{Kind: "use", Slot: 1 + r.Intn(slot)}
				} else {
					op.Kind = "detect"
				}
			}
			if (op.Kind == "detect" || op.Kind == "lookup" || op.Kind == "reader") && r.Chance(1, 4) {
				slot = slot%p.Slots + 1
				op.Slot = slot
				op.Early = op.Kind != "lookup" && r.Chance(1, 2)
			}
			ops = append(ops, op)
		}
		if len(ops) == 0 {
			in := universe[0]
			ops = append(ops, Op{Kind: "detect", In: &in})
		}
		p.Tasks = append(p.Tasks, ops)
	}
	return p
}

// c06Ladder is a focused plan: one task registers accepting extensions level
// by level along the detection path of one input (shallow to deep, deep to
// shallow or shuffled) while others keep detecting exactly that input and
// looking the new names up; a walk that does not see one tree from top to
// bottom produces an answer no sequential execution could.
func c06Ladder(r *core.Rand, p *Plan, g *extGen, universe []inputs.Input) {
	in := universe[r.Intn(len(universe))]
	x := lib.Header(in.Bytes(), p.Limit0)
	path := pathOf(in.Fam)
	var rungs []Op
	for _, name := range path {
		for k, n := 0, r.Range(1, 2); k < n; k++ {
			rungs = append(rungs, Op{Kind: "extend", Ext: g.accepting(name, x)})
		}
	}
	switch r.Intn(3) {
	case 0: // shallow to deep
	case 1: // deep to shallow
		for i, j := 0, len(rungs)-1; i < j; i, j = i+1, j-1 {
			rungs[i], rungs[j] = rungs[j], rungs[i]
		}
	default:
		for i := len(rungs) - 1; i > 0; i-- {
			j := r.Intn(i + 1)
			rungs[i], rungs[j] = rungs[j], rungs[i]
		}
	}
	if len(rungs) > 7 {
		rungs = rungs[:7]
	}
	p.Tasks = append(p.Tasks, rungs)
	for t, n := 0, r.Range(1, 2); t < n; t++ {
		var ops []Op
		for i, m := 0, r.Range(2, 5); i < m; i++ {
			op := Op{In: &in}
			switch e := r.Intn(10); {
			case e < 6:
				op.Kind = "detect"
			case e < 8:
				op.Kind = "reader"
				op.Del = randDelivery(r, len(in.Bytes()), 0)
			case e < 9:
				op.Kind = "file"
				op.Del = randDelivery(r, len(in.Bytes()), 0)
			default:
				e := g.made[r.Intn(len(g.made))]
				names := g.lookupNames(e)
				op = Op{Kind: "lookup", Name: names[r.Intn(len(names))], Ext: e}
			}
			ops = append(ops, op)
		}
		p.Tasks = append(p.Tasks, ops)
	}
	if r.Chance(1, 3) && len(p.Tasks) < 4 {
		other := universe[r.Intn(len(universe))]
		p.Tasks = append(p.Tasks, []Op{{Kind: "detect", In: &other}, {Kind: "lookup", Name: "text/plain"}})
	}
}

// --- porcupine model -------------------------------------------------------

type pstate struct {
	limit uint32
	exts  string // ids in registration order, comma separated
	slots string // "call=limit;" for detections that sampled the limit but have not answered
}

type pinput struct {
	kind string // setlimit | extend | sample | answer | lookup
	call int
	ti   int
	oi   int
	op   *Op
	res  *OpRes
	x    []byte
}

type c06model struct {
	exts map[int]*model.Ext
}

func (m *c06model) extList(s string) []*model.Ext {
	if s == "" {
		return nil
	}
	var out []*model.Ext
	for _, f := range strings.Split(s, ",") {
		id, _ := strconv.Atoi(f)
		if e := m.exts[id]; e != nil {
			out = append(out, e)
		}
	}
	return out
}

func hasID(s string, id int) bool {
	for _, f := range strings.Split(s, ",") {
		if f == strconv.Itoa(id) {
			return true
		}
	}
	return false
}

func slotGet(slots string, call int) (uint32, bool) {
	key := strconv.Itoa(call) + "="
	for _, f := range strings.Split(slots, ";") {
		if strings.HasPrefix(f, key) {
			v, _ := strconv.ParseUint(f[len(key):], 10, 32)
			return uint32(v), true
		}
	}
	return 0, false
}

func slotDel(slots string, call int) string {
	key := strconv.Itoa(call) + "="
	var out []string
	for _, f := range strings.Split(slots, ";") {
		if f != "" && !strings.HasPrefix(f, key) {
			out = append(out, f)
		}
	}
	return strings.Join(out, ";")
}

func slotAdd(slots string, call int, l uint32) string {
	fs := []string{}
	for _, f := range strings.Split(slots, ";") {
		if f != "" {
			fs = append(fs, f)
		}
	}
	fs = append(fs, fmt.Sprintf("%d=%d", call, l))
	sort.Strings(fs)
	return strings.Join(fs, ";")
}

func (m *c06model) step(st, in, out interface{}) (bool, interface{}) {
	s := st.(pstate)
	i := in.(pinput)
	switch i.kind {
	case "setlimit":
		s.limit = i.op.Limit
		return true, s
	case "extend":
		e := i.op.Ext
		if e.ParentExt >= 0 && !hasID(s.exts, e.ParentExt) {
			return false, s // its parent had been found by Lookup, so it was registered
		}
		if s.exts == "" {
			s.exts = strconv.Itoa(e.ID)
		} else {
			s.exts += "," + strconv.Itoa(e.ID)
		}
		return true, s
	case "sample":
		s.slots = slotAdd(s.slots, i.call, s.limit)
		return true, s
	case "answer":
		l, ok := slotGet(s.slots, i.call)
		if !ok {
			return false, s
		}
		e := expectDetect(i.op, i.x, state{limit: l, exts: m.extList(s.exts)})
		if !e.matches(i.op, i.res) {
			return false, s
		}
		s.slots = slotDel(s.slots, i.call)
		return true, s
	case "lookup":
		ok, _ := lookupMatches(i.op, i.res, state{exts: m.extList(s.exts)})
		return ok, s
	case "parent-missing":
		// Lookup(parent) returned nil inside an Extend call
		for _, c := range model.Lookups(i.op.Ext.Parent, m.extList(s.exts)) {
			if c.Res.Nil {
				return true, s
			}
		}
		return false, s
	}
	return false, s
}

func describePin(in, out interface{}) string {
	i := in.(pinput)
	switch i.kind {
	case "sample":
		return fmt.Sprintf("t%d op%d samples the limit", i.ti, i.oi)
	case "answer":
		return fmt.Sprintf("t%d op%d %s => %s", i.ti, i.oi, i.op, i.res.R.Key())
	case "lookup":
		return fmt.Sprintf("t%d op%d %s => %s", i.ti, i.oi, i.op, i.res.R.Key())
	}
	return fmt.Sprintf("t%d op%d %s", i.ti, i.oi, i.op)
}

// history builds the porcupine operations of a run.
func c06History(rr *RunResult) ([]porcupine.Operation, int) {
	var ops []porcupine.Operation
	call := 0
	overlap := 0
	type win struct{ inv, ret int }
	var writers, readers []win
	for ti, tops := range rr.Plan.Tasks {
		for oi := range tops {
			op := &tops[oi]
			res := &rr.W.Res[ti][oi]
			inv, ret := core.Seq(rr.Out.Invoke[ti], oi), core.Seq(rr.Out.Return[ti], oi)
			if !res.Done || inv < 0 || ret < 0 {
				continue
			}
			add := func(in pinput) {
				in.ti, in.oi, in.op, in.res = ti, oi, op, res
				ops = append(ops, porcupine.Operation{ClientId: ti, Input: in, Call: int64(inv), Output: nil, Return: int64(ret)})
			}
			switch op.Kind {
			case "setlimit":
				add(pinput{kind: "setlimit"})
				writers = append(writers, win{inv, ret})
			case "extend":
				if res.Skipped {
					add(pinput{kind: "parent-missing"})
				} else {
					add(pinput{kind: "extend"})
					writers = append(writers, win{inv, ret})
				}
			case "detect", "reader", "file":
				call++
				add(pinput{kind: "sample", call: call})
				add(pinput{kind: "answer", call: call, x: rr.W.Bytes[ti][oi]})
				readers = append(readers, win{inv, ret})
			case "lookup":
				add(pinput{kind: "lookup"})
				readers = append(readers, win{inv, ret})
			}
		}
	}
	for _, w := range writers {
		for _, r := range readers {
			if w.inv < r.ret && r.inv < w.ret {
				overlap++
			}
		}
	}
	return ops, overlap
}

func (c *c06) Check(rr *RunResult, st *Stats) []Failure {
	fs := KernelFailures(rr, true)
	fs = append(fs, BufferFailures(rr)...)
	fs = append(fs, AliasMemoryFailures(rr)...)
	fs = append(fs, PreFailures(rr)...)
	if rr.Out.Class != "" {
		return fs
	}
	for ti, ops := range rr.Plan.Tasks {
		for oi := range ops {
			op := &ops[oi]
			res := &rr.W.Res[ti][oi]
			if !res.Done {
				fs = append(fs, Failure{"no-return", describe(ti, oi, op) + " did not return"})
				continue
			}
			st.Ops++
			switch op.Kind {
			case "detect", "reader", "file":
				if res.R.Nil {
					fs = append(fs, Failure{"nil-result", describe(ti, oi, op) + ": nil MIME"})
				}
				if res.Stream != nil && res.Stream.Faulted {
					st.Fault("read_error_reached")
				}
			case "use":
				if res.SlotWasSet {
					if res.UseOf[0] != ti {
						st.Probe("result_used_by_another_task")
					}
					if !res.Same {
						fs = append(fs, Failure{"earlier-value-changed", fmt.Sprintf("%s: a value returned by t%d op%d now shows %s", describe(ti, oi, op), res.UseOf[0], res.UseOf[1], res.R.Key())})
					}
				}
			case "extend":
				if res.Skipped {
					st.Probe("extend_skipped_parent_not_registered_yet")
				}
			}
		}
	}
	m := &c06model{exts: map[int]*model.Ext{}}
	init := pstate{limit: rr.Plan.Limit0}
	for _, e := range rr.W.PreExts {
		m.exts[e.ID] = e
		if init.exts == "" {
			init.exts = strconv.Itoa(e.ID)
		} else {
			init.exts += "," + strconv.Itoa(e.ID)
		}
	}
	for _, ops := range rr.Plan.Tasks {
		for oi := range ops {
			if ops[oi].Kind == "extend" && ops[oi].Ext != nil {
				m.exts[ops[oi].Ext.ID] = ops[oi].Ext
			}
		}
	}
	hist, overlap := c06History(rr)
	hasWriter := false
	for _, ops := range rr.Plan.Tasks {
		for oi := range ops {
			hasWriter = hasWriter || ops[oi].Kind == "setlimit" || ops[oi].Kind == "extend"
		}
	}
	if !hasWriter {
		// nothing changes the limit or the tree during the run: every answer is judged
		// against the one state there is (no search needed, however many operations)
		s0 := state{limit: rr.Plan.Limit0, exts: rr.W.PreExts}
		for ti, ops := range rr.Plan.Tasks {
			for oi := range ops {
				op, res := &ops[oi], &rr.W.Res[ti][oi]
				if !res.Done || res.R.Nil {
					continue
				}
				switch op.Kind {
				case "detect", "reader", "file":
					if e := expectDetect(op, rr.W.Bytes[ti][oi], s0); !e.matches(op, res) {
						fs = append(fs, Failure{"mismatch", fmt.Sprintf("%s: got %s err=%q; with limit %d and the %d registered extension(s) a sequential call gives %s", describe(ti, oi, op), res.R.Key(), res.ErrText, s0.limit, len(s0.exts), e)})
					}
				case "lookup":
					if ok, want := lookupMatches(op, res, s0); !ok {
						fs = append(fs, Failure{"mismatch", fmt.Sprintf("%s: Lookup shows %s Is=%v; expected %s", describe(ti, oi, op), res.R.Key(), res.Is, want)})
					}
				}
			}
		}
		c06Probes(rr, st)
		st.FaultFree++
		_ = overlap
		return fs
	}
	pm := porcupine.Model{
		Init:              func() interface{} { return init },
		Step:              m.step,
		Equal:             func(a, b interface{}) bool { return a.(pstate) == b.(pstate) },
		DescribeOperation: describePin,
	}
	core.Tick()
	result := porcupine.CheckOperationsTimeout(pm, hist, 20*time.Second)
	core.Tick()
	switch result {
	case porcupine.Illegal:
		fs = append(fs, Failure{"illegal-history", c06Explain(rr, m, init, hist)})
	case porcupine.Unknown:
		st.Inconclusive++
	}
	if overlap > 0 {
		st.Probe("runs_with_writer_overlapping_reader")
		st.Mark(rr.Out.ConflictSig)
		st.Sample(sampleOfRun(rr, 8), 3)
	}
	c06Probes(rr, st)
	st.FaultFree++
	return fs
}

// c06Explain names the operations whose result no (limit, extension set) in
// force during the call explains; when every operation is explainable on its
// own, the history as a whole has no sequential order.
func c06Explain(rr *RunResult, m *c06model, init pstate, hist []porcupine.Operation) string {
	limits := []uint32{init.limit}
	var allExt []*model.Ext
	type wext struct {
		e        *model.Ext
		inv, ret int64
	}
	var ws []wext
	for _, h := range hist {
		in := h.Input.(pinput)
		switch in.kind {
		case "setlimit":
			limits = append(limits, in.op.Limit)
		case "extend":
			ws = append(ws, wext{in.op.Ext, h.Call, h.Return})
		}
	}
	_ = allExt
	var bad []string
	for _, h := range hist {
		in := h.Input.(pinput)
		if in.kind != "answer" && in.kind != "lookup" {
			continue
		}
		// extension sets: everything registered before the call + any subset of the overlapping ones
		base := m.extList(init.exts)
		var over []*model.Ext
		for _, w := range ws {
			if w.ret < h.Call {
				base = append(base, w.e)
			} else if w.inv < h.Return {
				over = append(over, w.e)
			}
		}
		if len(over) > 6 {
			over = over[:6]
		}
		ok := false
		for mask := 0; mask < 1<<len(over) && !ok; mask++ {
			es := append([]*model.Ext(nil), base...)
			for b, e := range over {
				if mask&(1<<b) != 0 {
					es = append(es, e)
				}
			}
			if in.kind == "lookup" {
				ok, _ = lookupMatches(in.op, in.res, state{exts: es})
				continue
			}
			for _, l := range limits {
				if expectDetect(in.op, in.x, state{limit: l, exts: es}).matches(in.op, in.res) {
					ok = true
					break
				}
			}
		}
		if !ok {
			bad = append(bad, fmt.Sprintf("%s => %s err=%q Is=%v matches no sequential answer for any limit in %v and any extension set in force during the call", describe(in.ti, in.oi, in.op), in.res.R.Key(), in.res.ErrText, in.res.Is, limits))
		}
	}
	if len(bad) > 0 {
		return strings.Join(bad, "; ")
	}
	var lines []string
	for _, h := range hist {
		in := h.Input.(pinput)
		if in.kind == "sample" {
			continue
		}
		lines = append(lines, fmt.Sprintf("[%d,%d] %s", h.Call, h.Return, describePin(h.Input, nil)))
	}
	return "every operation is explainable on its own, but no single order of limit changes and registrations explains all of them: " + strings.Join(lines, "; ")
}

func c06Probes(rr *RunResult, st *Stats) {
	o := rr.Out
	for _, k := range []string{"store_between_load_and_rlock", "store_while_reader_mid_delivery", "writer_granted_between_load_and_rlock", "lookup_while_extend_in_flight"} {
		if o.Probes[k] > 0 {
			st.Probe("runs_with_" + k)
		}
	}
}
