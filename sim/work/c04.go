package work

import (
	"fmt"

	"github.com/gabriel-vasile/mimetype/internal/verifsim/core"
	"github.com/gabriel-vasile/mimetype/internal/verifsim/inputs"
	"github.com/gabriel-vasile/mimetype/internal/verifsim/lib"
)

// C04: detection is a pure function of the examined header. The simulated
// dimension is the history of earlier detections on this and other tasks and
// the pool's choice of which recycled object serves the next call.

type c04 struct{}

func init() { Props["C04"] = &c04{} }

func (c *c04) Rule() string {
	return "first a systematic sweep: every entry of the repository's own sample table (one or more inputs per supported format) through Detect (private buffer with verdict-flipping spare capacity; cut at the limit with two continuations; reused buffer whose earlier result is inspected again), DetectReader and DetectFile under limits 3072/0/16/5/64, and (race build) two callers detecting every entry at once from shared buffers; then seeded histories: 1-4 tasks (crowd runs: 9-14) x 1-8 detections through Detect/DetectReader/DetectFile over pool-dirtying (valid, truncated, malformed, query-hitting, >128-deep, cap-deep JSON; NDJSON with a bad line; ragged and >4 KiB CSV), limit-sensitive, charset-bearing and binary inputs, tail-mutated twins (same header, different bytes beyond the limit), failing readers and shared and reused caller buffers (same address, new content), sibling inputs (same family and size, other variant), results kept by the caller and inspected again later (some handed to another task before any accessor was called), under a per-run limit up to 128 MiB (single-task runs also change the limit between calls) and a per-run pool policy (lifo/fifo/adversarial/steal) whose every Get decision is recorded; each result is compared with the same build's answer for that header from a fresh pool with no history. Non-trivial = a recycled pooled object was served during the run; distinct = distinct (operation shapes, pool decision sequence, schedule conflict signature) hashes"
}

var c04Limits = []uint32{3072, 3072, 3072, 0, 0, 1, 16, 64, 100, 1000, 4096, 8192, 70000}

func c04Size(r *core.Rand) int {
	switch v := r.Intn(100); {
	case v < 50:
		return r.Range(1, 200)
	case v < 85:
		return r.Range(200, 5000)
	case v < 98:
		return r.Range(5000, 70000)
	default:
		if r.Chance(1, 8) {
			return r.Range(8<<20+1, 12<<20) // beyond the thresholds growing buffers are built around
		}
		return r.Range(1<<20, 3<<20)
	}
}

var deepMenu = []int{1, 3, 60, 127, 128, 129, 130, 200, 1000, 5000}
var nestMenu = []int{3, 500, 4094, 4095, 4096, 4097, 4098, 5000}

func c04Input(r *core.Rand) inputs.Input {
	in := c04InputBase(r)
	if r.Chance(1, 10) && in.Fam != "empty" {
		// white space in front: markup, JSON and text checks skip it, magic numbers do not
		in.Lead = []int{1, 1, 2, 3, 5, 7, 8, 64}[r.Intn(8)]
	}
	return in
}

func c04InputBase(r *core.Rand) inputs.Input {
	n := c04Size(r)
	in := inputs.Input{N: n, Seed: r.Uint64() % 1000}
	switch v := r.Intn(100); {
	case v < 32: // JSON scanner users
		fams := []string{"json", "json_trunc", "json_bad", "geojson", "geojson", "har", "gltf", "json_deep", "json_deep", "json_nest", "json_wide", "json_esc", "json_esc"}
		in.Fam = fams[r.Intn(len(fams))]
		in.V = r.Intn(8)
		switch in.Fam {
		case "json_trunc", "json_bad":
			in.P = r.Range(1, n)
		case "json_deep":
			in.P = deepMenu[r.Intn(len(deepMenu))]
		case "json_nest":
			in.P = nestMenu[r.Intn(len(nestMenu))]
		case "geojson":
			in.P = []int{0, 0, 1, 100, 3000}[r.Intn(5)]
			if n > 60000 {
				in.N = 60000
			}
		case "har", "gltf":
			if n > 60000 {
				in.N = 100
			}
		}
	case v < 54: // line oriented: pooled bufio.Reader
		fams := []string{"ndjson", "ndjson_bad", "csv", "csv_ragged", "csv_ragged", "csv_big", "tsv", "json_lines", "json_lines", "csv_mix", "csv_mix"}
		in.Fam = fams[r.Intn(len(fams))]
		rows := []int{2, 3, 8, 50, 300, 600, 2000}[r.Intn(7)]
		in.N = rows
		in.V = r.Range(2, 9)
		in.P = r.Range(1, rows)
		if in.Fam == "csv_mix" {
			in.N, in.V, in.P = []int{2, 3, 5, 9, 60, 400}[r.Intn(6)], csvMenu[r.Intn(len(csvMenu))], r.Intn(10)
		}
		if in.Fam == "json_lines" {
			in.N, in.V, in.P = []int{1, 2, 3, 4, 8, 50}[r.Intn(6)], linesMenu[r.Intn(len(linesMenu))], r.Intn(9)
		}
	case v < 68:
		fams := []string{"html_meta", "html_meta", "xml_enc", "latin1", "bom16", "text", "text_nul", "svg", "shebang", "bom8", "bom8", "utf8", "utf8", "utf8", "html_mix", "html_mix", "html_mix"}
		in.Fam = fams[r.Intn(len(fams))]
		in.V = r.Intn(6)
		if in.Fam == "html_mix" {
			in.N, in.V, in.P = r.Range(1, 6), htmlMenu[r.Intn(len(htmlMenu))], r.Intn(13)
			break
		}
		if in.N > 60000 && in.Fam != "text" && in.Fam != "text_nul" {
			in.N = r.Range(10, 4000)
		}
		in.P = r.Range(0, in.N)
		if in.Fam == "bom8" {
			in.V, in.N = r.Intn(16), r.Intn(300)
		}
		if in.Fam == "utf8" {
			in.P = r.Intn(4)
		}
		if in.Fam == "html_meta" && r.Chance(1, 2) {
			in.P = []int{0, 10, 3000, 3100}[r.Intn(4)]
		}
	case v < 80:
		fams := []string{"png", "gif", "pdf", "zip", "docx", "docx", "ole", "elf", "gzip", "random", "tar", "tar", "sample", "sample", "sample", "tar_poly", "tar_poly", "overlay"}
		in.Fam = fams[r.Intn(len(fams))]
		in.P = []int{10, 100, 2900, 3100, 5000}[r.Intn(5)]
		if in.N > 60000 && in.Fam != "random" {
			in.N = r.Range(10, 4000)
		}
		if in.Fam == "sample" {
			in.V, in.P = r.Intn(64), 0
		}
		if in.Fam == "tar" {
			in.V = r.Intn(4)
		}
		if in.Fam == "tar_poly" {
			in.V, in.P, in.N = r.Intn(1<<12), r.Range(2, 12), r.Range(0, 2000)
		}
		if in.Fam == "overlay" {
			in.V, in.P, in.N = r.Intn(1<<12), r.Intn(1<<12), r.Range(1, 16)
		}
	case v < 96:
		// the repository's own sample of some format (every supported format has one),
		// as is or followed by text / zero bytes
		in.Fam, in.V, in.P = "corpus", r.Intn(1<<12), []int{0, 0, 1, 2}[r.Intn(4)]
		if in.N > 5000 {
			in.N = r.Range(1, 5000)
		}
	default:
		fams := []string{"empty", "rtf", "srt", "vcard"}
		in.Fam = fams[r.Intn(len(fams))]
		if in.N > 4000 {
			in.N = r.Range(1, 200)
		}
	}
	return in
}

var corpusChains []lib.Res

// siblingExts lists the file extensions of the formats that share corpus entry e's
// parent chain (its siblings in the tree, as far as the repository's samples show them).
// linesMenu are the sets of line kinds (see the json_lines family) a run draws from:
// everything; scalars and blank lines only; scalars, blanks and white space; with objects; ...
var linesMenu = []int{0, 0x3c, 0x7c, 0x24, 0x64, 0x3d, 0x7f, 0xbc, 0x21, 0x60, 0x1c}

// csvMenu are the sets of row kinds (see the csv_mix family); bit 12 turns the separator into a tab.
var csvMenu = []int{0, 0, 0x1000, 0x03, 0x05, 0x09, 0x11, 0x21, 0x41, 0x81, 0x101, 0x0f, 0x7f, 0x1ff, 0x107f, 0x18, 0x45}

// htmlMenu are the sets of meta element forms (see the html_mix family) a run draws from.
var htmlMenu = []int{0, 0, 0x003, 0x006, 0x007, 0x00e, 0x016, 0x026, 0x047, 0x406, 0x806, 0x304, 0x0ff, 0xfff, 0x024, 0x404}

func siblingExts(e int) []string {
	n := len(inputs.Corpus())
	if corpusChains == nil {
		corpusChains = make([]lib.Res, n)
		for i := 0; i < n; i++ {
			corpusChains[i] = lib.B(inputs.Input{Fam: "corpus", V: i}.Bytes(), 0)
		}
	}
	me := corpusChains[e]
	if me.Nil || len(me.Chain) < 2 {
		return nil
	}
	var out []string
	seen := map[string]bool{me.Chain[0].Ext: true, "": true}
	for i, c := range corpusChains {
		if i == e || c.Nil || len(c.Chain) != len(me.Chain) || seen[c.Chain[0].Ext] {
			continue
		}
		same := true
		for k := 1; k < len(c.Chain); k++ {
			same = same && c.Chain[k] == me.Chain[k]
		}
		if same {
			seen[c.Chain[0].Ext] = true
			out = append(out, c.Chain[0].Ext)
		}
	}
	return out
}

// sweepChunk is the number of corpus entries one sweep run covers.
const sweepChunk = 8

var sweepLimits = []uint32{3072, 0, 16, 5, 64}

// sweepPlan is run g of the systematic part of the plan space: every entry of
// the repository's own sample table (one or more inputs per supported format)
// goes through Detect (private buffer with a verdict-flipping spare capacity, and
// cut at the limit with two different continuations), DetectReader and
// DetectFile, under each limit of sweepLimits. nil: g is beyond the sweep.
func sweepPlan(seed uint64, g int) *Plan {
	n := len(inputs.Corpus())
	chunks := (n + sweepChunk - 1) / sweepChunk
	if n == 0 || g >= chunks*len(sweepLimits) {
		return nil
	}
	r := core.NewRand(core.Mix(seed, 0x5eec04, uint64(g)))
	limit := sweepLimits[g/chunks]
	p := &Plan{Prop: "C04", Limit0: limit, MaxSteps: 60000000, Pool: []string{"adversarial", "lifo", "steal"}[g%3],
		Sched: core.SchedSpec{Kind: "random"}}
	var ops []Op
	for e := (g % chunks) * sweepChunk; e < (g%chunks+1)*sweepChunk && e < n; e++ {
		in := inputs.Input{Fam: "corpus", V: e}
		ops = append(ops, Op{Kind: "detect", In: &in})
		if limit > 0 {
			// cut inside (or extend beyond) the sample at the limit, with two continuations
			t1, t2 := in, in
			if len(in.Bytes()) < int(limit) {
				t1.P, t1.N = 1, int(limit)+8
				t2.P, t2.N = 1, int(limit)+8
			}
			t1.Cut, t1.Tail = int(limit), 1+r.Intn(len(inputs.Tails)-1)
			t2.Cut, t2.Tail = int(limit), 1+r.Intn(len(inputs.Tails)-1)
			ops = append(ops, Op{Kind: "detect", In: &t1}, Op{Kind: "detect", In: &t2, Reuse: true})
		}
		ops = append(ops, Op{Kind: "reader", In: &in, Del: randDelivery(r, len(in.Bytes()), 0)})
		ops = append(ops, Op{Kind: "file", In: &in})
		// the same content under the names of its sibling formats (same parent in the
		// tree), and under a common extension: a name says nothing about the content
		sibs := siblingExts(e)
		for k := 0; k < 2 && k < len(sibs); k++ {
			ops = append(ops, Op{Kind: "file", In: &in, NameExt: sibs[(g/chunks+k)%len(sibs)]})
		}
		ops = append(ops, Op{Kind: "file", In: &in, NameExt: extMenu[(e+g)%len(extMenu)]})
		ops = append(ops, Op{Kind: "detect", In: &in, Reuse: true, Slot: 1 + (e % 3)})
		if e%2 == 1 {
			ops = append(ops, Op{Kind: "use", Slot: 1 + ((e - 1) % 3)})
		}
	}
	p.Slots = 3
	p.Tasks = [][]Op{ops}
	return p
}

// sweepPlanRace is run g of the systematic part of the race phase: two callers
// detect the same corpus entries at the same time, from buffers they share
// (read-only for everybody, so that a write by the library is a race) and through
// readers; whatever a detector keeps at package level is touched by both.
func sweepPlanRace(seed uint64, g int) *Plan {
	n := len(inputs.Corpus())
	chunks := (n + sweepChunk - 1) / sweepChunk
	if n == 0 || g >= chunks {
		return nil
	}
	r := core.NewRand(core.Mix(seed, 0x5eec05, uint64(g)))
	p := &Plan{Prop: "C04", Limit0: []uint32{3072, 0, 64}[g%3], MaxSteps: 60000000, Pool: "steal",
		Sched: core.SchedSpec{Kind: "random"}}
	var a, b []Op
	for e := g * sweepChunk; e < (g+1)*sweepChunk && e < n; e++ {
		in := inputs.Input{Fam: "corpus", V: e}
		p.Shared = append(p.Shared, in)
		k := len(p.Shared)
		a = append(a, Op{Kind: "detect", In: &in, Shared: k}, Op{Kind: "reader", In: &in, Del: randDelivery(r, len(in.Bytes()), 0)})
		b = append(b, Op{Kind: "reader", In: &in, Del: randDelivery(r, len(in.Bytes()), 0)}, Op{Kind: "detect", In: &in, Shared: k})
	}
	p.Tasks = [][]Op{a, b}
	return p
}

// streakPlan is run g of the second systematic part: a long unbroken streak of
// detections of ONE sample, then one detection of another sample - again and
// again, for two dozen other samples. Whatever the library learns from recent
// history (a "try the last winner first" shortcut, adaptive ordering, a
// per-format fast path that arms itself after N hits) has armed itself by then,
// and an input that two detectors accept shows it.
func streakPlan(seed uint64, tier string, g int) *Plan {
	n := len(inputs.Corpus())
	if n == 0 || g >= n {
		return nil
	}
	r := core.NewRand(core.Mix(seed, 0x57eac04, uint64(g)))
	streak, victims := 20, 24
	if tier == "thorough" {
		streak, victims = 70, 60
	}
	p := &Plan{Prop: "C04", Limit0: []uint32{3072, 3072, 0}[g%3], MaxSteps: 60000000, Pool: "lifo", Sched: core.SchedSpec{Kind: "random"}}
	hot := inputs.Input{Fam: "corpus", V: g}
	var ops []Op
	for j := 0; j < victims; j++ {
		for i := 0; i < streak; i++ {
			op := Op{Kind: "detect", In: &hot, Reuse: true}
			if i%7 == 3 {
				op = Op{Kind: "reader", In: &hot}
			}
			ops = append(ops, op)
		}
		v := inputs.Input{Fam: "corpus", V: r.Intn(n)}
		if j%4 == 3 {
			v = inputs.Input{Fam: "corpus", V: (g + 1 + j/4) % n} // a neighbour in the table (often a sibling format)
		}
		ops = append(ops, Op{Kind: "detect", In: &v})
	}
	p.Tasks = [][]Op{ops}
	return p
}

// siblingsPlan: one caller, one buffer (always the same address), and a handful of
// inputs that a memo keyed too coarsely cannot tell apart - same family, same
// examined length, other variant / filler / position - detected in alternation.
func siblingsPlan(r *core.Rand) *Plan {
	p := &Plan{Prop: "C04", MaxSteps: 60000000, Pool: []string{"lifo", "adversarial"}[r.Intn(2)], Sched: core.SchedSpec{Kind: "random"}, Slots: 4}
	base := c04Input(r)
	for tries := 0; tries < 6 && (base.N > 20000 || base.Fam == "empty"); tries++ {
		base = c04Input(r)
	}
	sibs := []inputs.Input{base}
	shifted := r.Chance(1, 4)
	if shifted {
		// "shifted" mode: one or two contents whose checks skip leading white space, each behind
		// 0-12 bytes of it - what a remembered offset (keyed by address and length) gets wrong
		fams := []string{"xml_enc", "html_meta", "html_mix", "svg", "json", "text", "rtf", "shebang", "geojson", "xml_enc", "html_mix"}
		base = inputs.Input{Fam: fams[r.Intn(len(fams))], N: r.Range(60, 400), V: r.Intn(6), Seed: r.Uint64() % 1000}
		other := inputs.Input{Fam: fams[r.Intn(len(fams))], N: r.Range(60, 400), V: r.Intn(6), Seed: r.Uint64() % 1000}
		sibs = sibs[:0]
		for i, n := 0, r.Range(4, 7); i < n; i++ {
			s := base
			if r.Chance(1, 4) {
				s = other
			}
			s.Lead = r.Intn(13)
			sibs = append(sibs, s)
		}
	}
	for i, n := 0, r.Range(2, 4); i < n && !shifted; i++ {
		s := base
		switch r.Intn(5) {
		case 0:
			s.V = base.V + 1 + i
		case 1:
			s.Seed = base.Seed + 1 + uint64(i)
		case 2:
			s.V, s.Seed = base.V+1+i, base.Seed+7
		case 3:
			// the same content behind another amount of leading white space
			s.Lead = []int{1, 2, 3, 5, 7, 8}[(base.Lead+i+r.Intn(6))%6]
		default:
			s.V, s.P = base.V+1+i, base.P+1
		}
		sibs = append(sibs, s)
	}
	// a limit below the shortest of them: the examined headers have one length
	shortest := len(sibs[0].Bytes())
	for _, s := range sibs[1:] {
		if n := len(s.Bytes()); n < shortest {
			shortest = n
		}
	}
	switch {
	case shortest > 3072 && r.Chance(1, 2):
		p.Limit0 = 3072
	case shortest > 2:
		p.Limit0 = uint32(r.Range(shortest/2+1, shortest))
	default:
		p.Limit0 = 3072
	}
	var ops []Op
	nops := r.Range(8, 16)
	if shifted {
		nops = r.Range(14, 24)
	}
	for i, n := 0, nops; i < n; i++ {
		in := sibs[r.Intn(len(sibs))]
		op := Op{Kind: "detect", In: &in, Reuse: true}
		if r.Chance(1, 8) {
			op = Op{Kind: "reader", In: &in, Del: randDelivery(r, len(in.Bytes()), 0)}
		}
		ops = append(ops, op)
	}
	p.Tasks = [][]Op{ops}
	return p
}

// ambientMenu: process-wide state outside the library that a detection has no business
// consulting - the standard library's table of media types and file extensions (mutable
// through mime.AddExtensionType, initialised from the host's mime.types), environment
// variables - and the clock (simulated: the library's import of "time" is redirected to a shim
// whose Now only moves when a plan says so). The reference process never sees these changes.
var ambientMenu = []string{
	"mime:.vf0|application/octet-stream", "mime:.vf1|application/octet-stream", "mime:.vf2|text/plain", "mime:.vf3|text/plain; charset=utf-8",
	"mime:.vf4|application/json", "mime:.vf5|application/zip", "mime:.vf6|text/html", "mime:.txt|application/x-verif", "mime:.json|text/x-verif", "mime:.zip|application/x-verif-zip",
	"env:LANG=ru_RU.KOI8-R", "env:LC_ALL=ja_JP.eucJP", "env:LC_CTYPE=tr_TR.ISO-8859-9", "env:TZ=Asia/Kolkata", "env:HOME=/nonexistent", "env:XDG_DATA_HOME=/nonexistent", "env:XDG_DATA_DIRS=/nonexistent",
	"clock:1", "clock:121", "clock:3601", "clock:86401", "clock:-7200", "clock:2678401",
}

func (c *c04) Plan(seed uint64, tier string, worker, workers, idx int) *Plan {
	p := c.plan(seed, tier, worker, workers, idx)
	r := core.NewRand(core.Mix(seed, 0xa3b1, uint64(worker), uint64(idx)))
	if r.Chance(1, 10) && len(p.Tasks) > 0 {
		for i, n := 0, r.Range(1, 3); i < n; i++ {
			ti := r.Intn(len(p.Tasks))
			at := r.Intn(len(p.Tasks[ti]) + 1)
			op := Op{Kind: "ambient", Name: ambientMenu[r.Intn(len(ambientMenu))]}
			p.Tasks[ti] = append(p.Tasks[ti][:at:at], append([]Op{op}, p.Tasks[ti][at:]...)...)
		}
	}
	return p
}

func (c *c04) plan(seed uint64, tier string, worker, workers, idx int) *Plan {
	if idx < 1000000 {
		g := worker + idx*workers
		if sp := sweepPlan(seed, g); sp != nil {
			return sp
		}
		nc := len(inputs.Corpus())
		sweeps := (nc + sweepChunk - 1) / sweepChunk * len(sweepLimits)
		if sp := streakPlan(seed, tier, g-sweeps); g >= sweeps && sp != nil {
			return sp
		}
	}
	if idx >= 10000000 && idx < 11000000 {
		if sp := sweepPlanRace(seed, worker+(idx-10000000)*workers); sp != nil {
			return sp
		}
	}
	r := core.NewRand(core.Mix(seed, 0xc04, uint64(worker), uint64(idx)))
	if r.Chance(1, 60) {
		return floodPlan(r, "C04")
	}
	if r.Chance(1, 10) {
		return siblingsPlan(r)
	}
	p := &Plan{Prop: "C04", Limit0: c04Limits[r.Intn(len(c04Limits))], MaxSteps: 60000000}
	if r.Chance(1, 12) {
		p.Limit0 = bigLimit(r)
	}
	if r.Chance(1, 40) {
		p.Limit0 = []uint32{8<<20 + 1, 9 << 20, 10<<20 + 3}[r.Intn(3)] // a limit that inputs of 8-12 MiB exceed
	}
	p.Pool = []string{"adversarial", "adversarial", "steal", "steal", "lifo", "fifo"}[r.Intn(6)]
	p.Sched = core.SchedSpec{Kind: []string{"random", "pct", "rtc"}[r.Intn(3)], D: r.Range(1, 3), Preempt: 30 + r.Intn(400), Horizon: 200}
	nt := []int{1, 1, 2, 2, 3, 4}[r.Intn(6)]
	crowd := r.Chance(1, 16)
	if crowd {
		// many callers at once, one or two detections each: whatever the library keeps
		// in a bounded number (a free list of N scratch objects, N helper slots) overflows
		nt = r.Range(9, 14)
		p.Sched = core.SchedSpec{Kind: "random"}
		if r.Chance(1, 2) {
			p.Limit0 = []uint32{0, 70000, 8192}[r.Intn(3)]
		}
	}
	// a small cast of inputs per run, so that the same header recurs after different histories
	cast := make([]inputs.Input, r.Range(2, 6))
	for i := range cast {
		cast[i] = c04Input(r)
	}
	if crowd {
		// scanner users, among them nesting around the recursion cap
		cast[0] = inputs.Input{Fam: "json_nest", N: 100, P: nestMenu[3+r.Intn(len(nestMenu)-3)], V: r.Intn(8)}
		cast[1] = inputs.Input{Fam: []string{"json", "json_deep", "csv_big", "ndjson"}[r.Intn(4)], N: r.Range(50, 3000), P: deepMenu[r.Intn(len(deepMenu))], V: r.Range(2, 6)}
	}
	// siblings: same family and size, other variant / position / filler - what a
	// memo keyed too coarsely (by length, by the first bytes, by the buffer's
	// address) cannot tell apart
	for i, n := 0, len(cast); i < n; i++ {
		if r.Chance(1, 3) {
			sib := cast[i]
			switch r.Intn(3) {
			case 0:
				sib.V++
			case 1:
				sib.Seed++
			default:
				sib.V, sib.P = sib.V+1, sib.P+1
			}
			cast = append(cast, sib)
		}
	}
	// tail twins: same header, different bytes beyond the limit
	if p.Limit0 > 0 {
		for tries := 0; tries < 4; tries++ {
			b := c04Input(r)
			if len(b.Bytes()) >= int(p.Limit0) {
				t1, t2 := b, b
				t1.Cut, t1.Tail = int(p.Limit0), 1+r.Intn(len(inputs.Tails)-1)
				t2.Cut, t2.Tail = int(p.Limit0), 1+r.Intn(len(inputs.Tails)-1)
				cast = append(cast, t1, t2, b)
				break
			}
		}
	}
	if r.Chance(1, 3) {
		for i, n := 0, r.Range(1, 2); i < n; i++ {
			p.Shared = append(p.Shared, cast[r.Intn(len(cast))])
		}
	}
	p.Slots = 4
	slot := 0
	for t := 0; t < nt; t++ {
		var ops []Op
		reuse := r.Chance(1, 3) // this caller reads every input into one buffer
		nops := r.Range(1, 8)
		if crowd {
			nops = r.Range(1, 2)
		}
		for i, n := 0, nops; i < n; i++ {
			in := cast[r.Intn(len(cast))]
			op := Op{In: &in}
			switch e := r.Intn(20); {
			case e < 12:
				op.Kind = "detect"
				if len(p.Shared) > 0 && r.Chance(1, 3) {
					k := r.Intn(len(p.Shared))
					sh := p.Shared[k]
					op.In, op.Shared = &sh, k+1
				} else if reuse {
					op.Reuse = true
				}
			case e < 17:
				op.Kind = "reader"
				op.Del = randDelivery(r, len(in.Bytes()), 25)
				if r.Chance(1, 5) {
					op.Wrap = "wt"
				}
			default:
				op.Kind = "file"
				op.Del = randDelivery(r, len(in.Bytes()), 15)
				op.NameExt = nameExt(r)
			}
			// some results are kept by the caller and looked at again later, after the
			// buffer they were detected in has been reused for other content
			if r.Chance(1, 3) && slot < p.Slots {
				slot++
				op.Slot = slot
				op.Early = nt > 1 && r.Chance(1, 2)
			}
			ops = append(ops, op)
			if slot > 0 && r.Chance(1, 4) {
				ops = append(ops, Op{Kind: "use", Slot: 1 + r.Intn(slot)})
			}
			if nt == 1 && r.Chance(1, 6) {
				ops = append(ops, Op{Kind: "setlimit", Limit: c04Limits[r.Intn(len(c04Limits))]})
			}
		}
		p.Tasks = append(p.Tasks, ops)
	}
	return p
}

func (c *c04) Check(rr *RunResult, st *Stats) []Failure {
	fs := KernelFailures(rr, true)
	fs = append(fs, BufferFailures(rr)...)
	if rr.Out.Class != "" {
		return fs
	}
	shape := rr.Out.ConflictSig
	headers := map[string]string{} // memo key of header -> bytes hash of the whole input
	faulted := false
	for ti, ops := range rr.Plan.Tasks {
		limit := rr.Plan.Limit0
		for oi := range ops {
			op := &ops[oi]
			res := &rr.W.Res[ti][oi]
			if !res.Done {
				fs = append(fs, Failure{"no-return", describe(ti, oi, op) + " did not return"})
				continue
			}
			st.Ops++
			if op.Kind == "setlimit" {
				limit = op.Limit
				continue
			}
			if op.Kind == "ambient" {
				st.Fault("ambient_state_changed")
				continue
			}
			if op.Kind == "use" {
				if res.SlotWasSet {
					st.Probe("earlier_value_reobserved")
					if !res.Same {
						fs = append(fs, Failure{"earlier-value-changed", fmt.Sprintf("%s: the value returned earlier by t%d op%d now shows %s (it showed something else when it was returned)", describe(ti, oi, op), res.UseOf[0], res.UseOf[1], res.R.Key())})
					}
				}
				continue
			}
			x := rr.W.Bytes[ti][oi]
			if res.R.Nil {
				fs = append(fs, Failure{"nil-result", describe(ti, oi, op) + ": nil MIME"})
				continue
			}
			e := expectDetect(op, x, state{limit: limit})
			if !e.matches(op, res) {
				fs = append(fs, Failure{"mismatch", fmt.Sprintf("%s (limit %d, %d bytes, pool policy %s): got %s err=%q; from a fresh pool with no history the same header gives %s",
					describe(ti, oi, op), limit, len(x), rr.Plan.Pool, res.R.Key(), res.ErrText, e)})
			}
			if e.wantErr {
				faulted = true
				st.Fault("read_error_reached")
			}
			shape = core.Mix(shape, hashStr(op.In.Fam), uint64(len(x)), uint64(limit))
			if len(x) >= 1<<20 {
				st.Probe("huge_operation")
			}
			if op.In.Cut > 0 && op.In.Tail > 0 {
				hk := fmt.Sprintf("%s|%d|%d", op.In.Fam, op.In.N*31+op.In.P*7+op.In.V, limit)
				full := fmt.Sprint(op.In.Tail)
				if prev, ok := headers[hk]; ok && prev != full {
					st.Probe("tail_twin_compared")
				}
				headers[hk] = full
			}
			if op.Shared > 0 {
				st.Probe("shared_caller_buffer_detected")
			}
			if op.Reuse {
				st.Probe("reused_caller_buffer_detected")
			}
		}
	}
	if faulted {
		st.WithFaults++
	} else {
		st.FaultFree++
	}
	if rr.Out.PoolServed > 0 {
		for _, d := range rr.Out.Decisions.Pool {
			shape = core.Mix(shape, uint64(d+2))
		}
		st.Mark(shape)
		st.Sample(sampleOfRun(rr, 8), 3)
	}
	return fs
}

var _ = lib.Bare
