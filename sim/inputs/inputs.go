// Package inputs generates the byte strings the workloads detect. Inputs are
// not the object of search in this framework; they are chosen so that every
// state the simulator manipulates (limit, pooled scratch state, extensions,
// reader faults) is observable in the detection result. Every input is a pure
// function of its spec, so plans and replay files stay small.
package inputs

import (
	"bytes"
	"fmt"
	"os"
	"path/filepath"
	"sort"
	"strings"

	"github.com/gabriel-vasile/mimetype/internal/verifsim/core"
)

// Input is the spec of one byte string.
type Input struct {
	Fam  string `json:"fam"`
	N    int    `json:"n,omitempty"`    // size / count parameter
	P    int    `json:"p,omitempty"`    // position / depth parameter
	V    int    `json:"v,omitempty"`    // variant
	Cut  int    `json:"cut,omitempty"`  // >0: keep only the first Cut bytes ...
	Tail int    `json:"tail,omitempty"` // ... and append tail variant Tail (1..) after them
	Seed uint64 `json:"seed,omitempty"`
	Lead int    `json:"lead,omitempty"` // >0: that many white-space bytes in front of everything
}

// leadWS is what Lead bytes are drawn from (mostly blanks).
const leadWS = " \t \n  \r \f "

// Families lists every family name with a short tag describing what the
// detection of a member leaves behind in the pooled scratch state.
var Families = []string{
	"text", "text_nul", "latin1", "bom16", "html_meta", "html_mix", "xml_enc",
	"json", "json_trunc", "json_bad", "geojson", "har", "gltf", "json_deep", "json_nest", "json_wide", "json_esc",
	"ndjson", "ndjson_bad", "json_lines", "csv", "csv_ragged", "csv_big", "tsv", "csv_mix",
	"png", "gif", "pdf", "zip", "docx", "ole", "elf", "gzip", "random", "empty",
	"shebang", "svg", "rtf", "srt", "vcard", "bom8", "utf8", "tar", "sample", "corpus", "poison", "tar_poly", "overlay",
}

// SampleDir is the directory of real sample files (the repository's testdata);
// empty or missing: the "sample" family falls back to a tar header.
var SampleDir string

var sampleNames []string
var sampleCache = map[string][]byte{}

// Samples lists the sample files, sorted (so that an index means the same file in every process).
func Samples() []string {
	if sampleNames == nil && SampleDir != "" {
		es, _ := os.ReadDir(SampleDir)
		for _, e := range es {
			if !e.IsDir() {
				if fi, err := e.Info(); err == nil && fi.Size() <= 4<<20 {
					sampleNames = append(sampleNames, e.Name())
				}
			}
		}
		sort.Strings(sampleNames)
		if sampleNames == nil {
			sampleNames = []string{}
		}
	}
	return sampleNames
}

func sample(i int) []byte {
	ns := Samples()
	if len(ns) == 0 {
		return tarHeader("fallback.txt", 11)
	}
	name := ns[i%len(ns)]
	if b, ok := sampleCache[name]; ok {
		return b
	}
	b, err := os.ReadFile(filepath.Join(SampleDir, name))
	if err != nil {
		b = tarHeader(name, 3)
	}
	sampleCache[name] = b
	return b
}

// CorpusFile holds the repository's own table of sample inputs (extracted from
// its test files when the check was prepared): one or more inputs per supported
// format. Empty or unreadable: the "corpus" family falls back to "sample".
var CorpusFile string

var corpusData [][]byte
var corpusNames []string
var corpusLoaded bool

// Corpus returns the names of the corpus entries.
func Corpus() []string {
	if !corpusLoaded {
		corpusLoaded = true
		b, err := os.ReadFile(CorpusFile)
		if err == nil && CorpusFile != "" {
			next := func() (string, bool) {
				if len(b) < 4 {
					return "", false
				}
				n := int(b[0]) | int(b[1])<<8 | int(b[2])<<16 | int(b[3])<<24
				if n < 0 || n > len(b)-4 {
					return "", false
				}
				s := string(b[4 : 4+n])
				b = b[4+n:]
				return s, true
			}
			for {
				name, ok := next()
				if !ok {
					break
				}
				data, ok := next()
				if !ok {
					break
				}
				if len(data) <= 4<<20 {
					corpusNames = append(corpusNames, name)
					corpusData = append(corpusData, []byte(data))
				}
			}
		}
	}
	return corpusNames
}

func corpus(i int) []byte {
	if len(Corpus()) == 0 {
		return sample(i)
	}
	return corpusData[i%len(corpusData)]
}

// PoisonPrefix is the prefix of the poison inputs of variant v.
func PoisonPrefix(v int) string {
	if v%2 == 0 {
		return "\x7fVERIF-POISON\x00"
	}
	return "VERIF-POISON "
}

// tarHeader builds one valid ustar header block (checksum included) followed by n content bytes.
func tarHeader(name string, n int) []byte {
	h := make([]byte, 512)
	copy(h[0:], name)
	copy(h[100:], "0000644\x00")
	copy(h[108:], "0001750\x00")
	copy(h[116:], "0001750\x00")
	copy(h[124:], fmt.Sprintf("%011o\x00", n))
	copy(h[136:], "14371573504\x00")
	copy(h[148:], "        ")
	h[156] = '0'
	copy(h[257:], "ustar\x0000")
	copy(h[265:], "root")
	copy(h[297:], "root")
	sum := 0
	for _, c := range h {
		sum += int(c)
	}
	copy(h[148:], fmt.Sprintf("%06o\x00 ", sum))
	body := make([]byte, (n+511)/512*512)
	copy(body, textN(clamp(n, 0, 1<<20), uint64(n)))
	return append(h, body...)
}

// Tag classifies what a detection of the input does to recycled state.
func (in Input) Tag() string {
	switch in.Fam {
	case "json_trunc", "json_bad", "ndjson_bad":
		return "aborted-parse"
	case "geojson", "har", "gltf":
		return "query-hit"
	case "json_deep":
		if in.P > 128 {
			return "deep-path"
		}
		return "json"
	case "json_nest":
		return "nest-cap"
	case "json", "json_wide", "ndjson", "json_esc", "json_lines":
		return "json"
	case "csv_ragged":
		return "csv-early-return"
	case "csv", "csv_big", "tsv", "csv_mix":
		return "csv"
	}
	return "other"
}

func (in Input) String() string {
	s := fmt.Sprintf("%s(n=%d,p=%d,v=%d", in.Fam, in.N, in.P, in.V)
	if in.Cut > 0 {
		s += fmt.Sprintf(",cut=%d,tail=%d", in.Cut, in.Tail)
	}
	if in.Lead > 0 {
		s += fmt.Sprintf(",lead=%d", in.Lead)
	}
	return s + ")"
}

const words = "lorem ipsum dolor sit amet consectetur adipiscing elit sed do eiusmod tempor incididunt ut labore et dolore magna aliqua "

func textN(n int, seed uint64) []byte {
	b := make([]byte, 0, n+len(words))
	off := int(seed % uint64(len(words)))
	for len(b) < n {
		b = append(b, words[off:]...)
		off = 0
		if len(b)%7 == 3 {
			b = append(b, '\n')
		}
	}
	return b[:n]
}

func clamp(v, lo, hi int) int {
	if v < lo {
		return lo
	}
	if v > hi {
		return hi
	}
	return v
}

// Tails are appended after Cut bytes. Each is designed to flip the verdict of
// some detector if it were (wrongly) examined.
var Tails = [][]byte{
	nil,
	{0x00, 0x01, 0x02},
	[]byte("]}]}]}]}\n"),
	[]byte("PK\x03\x04\x14\x00\x00\x00\x00\x00word/document.xml"),
	[]byte("<meta charset=\"koi8-r\"><html>"),
	[]byte("\n\"unterminated,,,\n1,2,3,4,5,6,7\n"),
	[]byte("\xff\xfe\xfd binary \x00 tail"),
	[]byte(",\"type\":\"Feature\"}"),
	{0xA9, 0xA0, ' ', 'x'},        // UTF-8 continuation bytes right after the cut
	{0x85, 0x9F, 'z'},             // C1 range / continuation
	{0xC3},                        // a lead byte whose continuation is missing
	[]byte("\n<svg xmlns=\"x\">"), // a late marker
	[]byte("\xef\xbb\xbf"),
}

// Bytes materialises the input.
func (in Input) Bytes() []byte {
	b := in.base()
	if in.Lead > 0 {
		k := in.Lead
		if k > 1<<16 {
			k = 1 << 16
		}
		lead := make([]byte, k, k+len(b))
		for i := range lead {
			lead[i] = leadWS[(i+k)%len(leadWS)]
		}
		b = append(lead, b...)
	}
	if in.Cut > 0 {
		if in.Cut < len(b) {
			b = b[:in.Cut]
		}
		if in.Tail > 0 {
			b = append(append([]byte(nil), b...), Tails[in.Tail%len(Tails)]...)
		}
	}
	return b
}

func (in Input) base() []byte {
	n, p, v := in.N, in.P, in.V
	if v < 0 {
		v = -v
	}
	if n < 0 {
		n = 0
	}
	r := core.NewRand(in.Seed ^ 0x5eed)
	switch in.Fam {
	case "empty":
		return []byte{}
	case "text":
		return textN(clamp(n, 1, 1<<22), in.Seed)
	case "text_nul":
		b := textN(clamp(n, 1, 1<<25), in.Seed)
		if p >= 0 && p < len(b) {
			b[p] = 0
		}
		return b
	case "latin1":
		b := textN(clamp(n, 4, 1<<16), in.Seed)
		b[clamp(p, 0, len(b)-1)] = 0xE9
		if v&1 == 1 {
			b[len(b)/2] = 0x93
		}
		return b
	case "bom16":
		b := []byte{0xFF, 0xFE}
		for _, c := range textN(clamp(n, 2, 4096), in.Seed) {
			b = append(b, c, 0)
		}
		return b
	case "html_meta":
		labels := []string{"utf-8", "ISO-8859-2", "windows-1251", "Shift_JIS", "koi8-r", "x-user-defined"}
		pad := strings.Repeat(" ", clamp(p, 0, 1<<16))
		if v%len(labels) == 5 && v < 2*len(labels) {
			// one meta element that declares the charset twice, in conflicting ways (with and
			// without the pragma): whatever decides between them must decide the same way every time
			tags := []string{
				`<meta http-equiv="Content-Type" content="text/html; charset=koi8-r" charset="utf-8">`,
				`<meta charset="windows-1251" content="text/html; charset=iso-8859-2">`,
				`<meta content="text/html; charset=shift_jis" charset="euc-kr" http-equiv="content-type">`,
			}
			return []byte("<!DOCTYPE html>\n" + strings.Repeat(" ", clamp(p, 0, 1<<16)) + "<html><head>" + tags[(uint64(clamp(v, 0, 1<<30)/len(labels))+in.Seed)%uint64(len(tags))] + "<title>t</title></head><body>" + string(textN(clamp(n, 0, 1<<16), in.Seed)) + "</body></html>")
		}
		label := labels[v%len(labels)]
		if v >= 2*len(labels) {
			// a label of its own: the declared charset is taken from the input, so the set of
			// distinct results a process has seen is as large as the inputs make it
			label = fmt.Sprintf("x-verif-cs-%d-%d", v, in.Seed)
		}
		return []byte("<!DOCTYPE html>\n" + pad + "<html><head><meta charset=\"" + label + "\"><title>t</title></head><body>" + string(textN(clamp(n, 0, 1<<16), in.Seed)) + "</body></html>")
	case "html_mix":
		// An HTML head holding N elements drawn from the forms below (V: bit k = form k in
		// play, none: all; P-1, if P > 0: the form of the first one), each with a label of its
		// own. Which of them decides the charset is the prescan's business; that it decides
		// the same way whatever was scanned before is ours.
		labels := []string{"utf-8", "ISO-8859-2", "windows-1251", "Shift_JIS", "koi8-r", "euc-kr", "big5", "x-user-defined"}
		var forms []int
		for k := 0; k < 12; k++ {
			if v&(1<<k) != 0 || v&0xfff == 0 {
				forms = append(forms, k)
			}
		}
		var b bytes.Buffer
		b.WriteString("<!DOCTYPE html>\n<html><head>")
		for i, k := 0, clamp(n, 1, 12); i < k; i++ {
			form := forms[r.Intn(len(forms))]
			if i == 0 && p > 0 {
				form = (p - 1) % 12
			}
			l := labels[r.Intn(len(labels))]
			switch form {
			case 0:
				fmt.Fprintf(&b, `<meta charset="%s">`, l)
			case 1:
				fmt.Fprintf(&b, `<meta http-equiv="Content-Type" content="text/html; charset=%s">`, l)
			case 2:
				fmt.Fprintf(&b, `<meta name="description" content="all about charset=%s and more">`, l)
			case 3:
				fmt.Fprintf(&b, `<meta http-equiv="refresh" content="5; url=/x?charset=%s">`, l)
			case 4:
				b.WriteString(`<meta http-equiv="content-type">`)
			case 5:
				fmt.Fprintf(&b, `<meta content="text/html; charset=%s">`, l)
			case 6:
				b.WriteString(`<meta name="viewport" content="width=device-width">`)
			case 7:
				b.WriteString(`<meta charset="">`)
			case 8:
				fmt.Fprintf(&b, `<!-- <meta charset="%s"> -->`, l)
			case 9:
				fmt.Fprintf(&b, `<script>var s = '<meta charset="%s">';</script>`, l)
			case 10:
				b.WriteString(`<meta http-equiv="Content-Type" content="text/html">`)
			case 11:
				fmt.Fprintf(&b, `<META CONTENT="TEXT/HTML; CHARSET=%s" HTTP-EQUIV="CONTENT-TYPE">`, l)
			}
		}
		b.WriteString("<title>t</title></head><body>")
		b.Write(textN(40, in.Seed))
		b.WriteString("</body></html>")
		return b.Bytes()
	case "xml_enc":
		labels := []string{"UTF-8", "ISO-8859-1", "windows-1252", "EUC-JP"}
		label := labels[v%len(labels)]
		if v >= 2*len(labels) {
			label = fmt.Sprintf("x-verif-enc-%d-%d", v, in.Seed)
		}
		return []byte("<?xml version=\"1.0\" encoding=\"" + label + "\"?>\n<root>" + string(textN(clamp(n, 0, 1<<16), in.Seed)) + "</root>")
	case "json", "json_trunc", "json_bad":
		var b bytes.Buffer
		b.WriteString("{")
		i := 0
		for b.Len() < clamp(n, 8, 1<<22) {
			if i > 0 {
				b.WriteString(",")
			}
			fmt.Fprintf(&b, "\"k%d\":{\"a\":[1,2,{\"b\":\"%s\"}],\"c\":%d.5e3,\"d\":null,\"e\":true}", i, words[i%40:i%40+9], i)
			i++
		}
		b.WriteString("}")
		out := b.Bytes()
		switch in.Fam {
		case "json_trunc":
			return out[:clamp(p, 2, len(out)-1)]
		case "json_bad":
			q := clamp(p, 1, len(out)-2)
			bad := []byte{'}', ']', ':', '\\', '@'}
			out[q] = bad[v%len(bad)]
			if v%7 == 6 {
				out = append(out[:q], append([]byte("}}}]]"), out[q:]...)...)
			}
		}
		return out
	case "json_esc":
		// valid JSON whose keys and strings use escapes: \uXXXX (also for plain ASCII
		// letters and as surrogate pairs), \n, \", \\, \/ - v selects the shape, among
		// them the GeoJSON / HAR / glTF key names spelled with escapes
		heads := []string{
			`{"name":"x","caf\u00e9":1,`,
			`{"ty\u0070e":"Feature","geometry":null,"properties":{"a\n":1},`,
			`{"a":1,"\u0061":2,"b\"c":3,"d\\e":[{"\ud83d\ude00":"\ud83d\ude00"}],`,
			`{"log":{"vers\u0069on":"1.2","creator":{"n\u0061me":"x"},"entries":[]},`,
			`{"asset":{"vers\u0069on":"2.0"},"sc\u0065nes":[],`,
			`{"k":"v","\u006b":"\u0076","x\/y":"\t",`,
		}
		var b bytes.Buffer
		b.WriteString(heads[v%len(heads)])
		for i := 0; b.Len() < clamp(n, 8, 1<<20); i++ {
			fmt.Fprintf(&b, "\"k\\u00%02x%d\":{\"p\\u0061th\":[%d,\"%s\"]},", 0x61+i%26, i, i, words[i%40:i%40+7])
		}
		b.WriteString(`"z":null}`)
		return b.Bytes()
	case "json_wide":
		var b bytes.Buffer
		b.WriteString("[")
		for i := 0; b.Len() < clamp(n, 8, 1<<22); i++ {
			if i > 0 {
				b.WriteString(",")
			}
			fmt.Fprintf(&b, "[%d,\"x\\u00e9\\n\",{}]", i)
		}
		b.WriteString("]")
		return b.Bytes()
	case "geojson":
		types := []string{"Feature", "FeatureCollection", "Point", "Polygon"}
		pad := strings.Repeat(" ", clamp(p, 0, 1<<16))
		filler := ""
		if n > 0 {
			filler = ",\"pad\":\"" + string(bytes.ReplaceAll(textN(clamp(n, 1, 1<<16), in.Seed), []byte("\n"), []byte(" "))) + "\""
		}
		return []byte("{" + pad + "\"properties\":{\"type\":\"x\"},\"type\":\"" + types[v%len(types)] + "\",\"geometry\":null" + filler + "}")
	case "har":
		keys := []string{"version", "creator", "entries"}
		vals := []string{"\"1.2\"", "{\"name\":\"n\"}", "[]"}
		return []byte("{\"log\":{\"" + keys[v%3] + "\":" + vals[v%3] + ",\"x\":[1,2,3]}" + strings.Repeat(" ", clamp(n, 0, 1<<16)) + "}")
	case "gltf":
		vs := []string{"2.0", "1.0"}
		return []byte("{\"scenes\":[],\"asset\":{\"generator\":\"g\",\"version\":\"" + vs[v%2] + "\"}" + strings.Repeat(" ", clamp(n, 0, 1<<16)) + "}")
	case "json_deep":
		// objects nested P deep: the parser's key path stack grows to P entries.
		d := clamp(p, 1, 6000)
		var b bytes.Buffer
		for i := 0; i < d; i++ {
			b.WriteString("{\"a\":")
		}
		b.WriteString("1")
		if v%3 != 1 { // v%3==1: leave it unterminated (aborted while the stack is deep)
			for i := 0; i < d; i++ {
				b.WriteString("}")
			}
		}
		if v%3 == 2 {
			b.WriteString("garbage")
		}
		return b.Bytes()
	case "json_nest":
		// arrays nested P deep, around the recursion cap.
		d := clamp(p, 1, 9000)
		return []byte(strings.Repeat("[", d) + strings.Repeat("]", d))
	case "ndjson", "ndjson_bad":
		var b bytes.Buffer
		k := clamp(n, 2, 5000)
		for i := 0; i < k; i++ {
			if in.Fam == "ndjson_bad" && i == clamp(p, 1, k-1) {
				b.WriteString("{\"broken\": [1,2\n")
				continue
			}
			fmt.Fprintf(&b, "{\"id\":%d,\"name\":\"%s\",\"tags\":[\"a\",\"b\"]}\n", i, words[i%50:i%50+7])
		}
		return b.Bytes()
	case "json_lines":
		// Line-oriented text whose lines are drawn from: objects, arrays, numbers, strings,
		// literals, blank lines, white-space-only lines, words that are not JSON. V is the
		// set of kinds in play (bit k = kind k; 0: all), P-1 (if P > 0) the kind of the first
		// line, N the number of lines. A per-line parser meets every kind of document here,
		// the degenerate ones (nothing, white space only, a bare scalar) included.
		var kinds []int
		for k := 0; k < 8; k++ {
			if v&(1<<k) != 0 || v&0xff == 0 {
				kinds = append(kinds, k)
			}
		}
		var b bytes.Buffer
		for i, k := 0, clamp(n, 1, 400); i < k; i++ {
			kind := kinds[r.Intn(len(kinds))]
			if i == 0 && p > 0 {
				kind = (p - 1) % 8
			}
			switch kind {
			case 0:
				fmt.Fprintf(&b, "{\"id\":%d,\"w\":\"%s\"}", i, words[i%50:i%50+5])
			case 1:
				fmt.Fprintf(&b, "[%d,\"%s\",null]", i, words[i%40:i%40+4])
			case 2:
				fmt.Fprintf(&b, "%d", r.Intn(100000)-500)
			case 3:
				fmt.Fprintf(&b, "\"%s\"", words[i%45:i%45+6])
			case 4:
				b.WriteString([]string{"true", "false", "null"}[r.Intn(3)])
			case 5:
			case 6:
				b.WriteString([]string{" ", "\t", "  \t ", "\r"}[r.Intn(4)])
			case 7:
				b.WriteString(words[i%50 : i%50+7])
			}
			b.WriteString("\n")
		}
		return b.Bytes()
	case "csv_mix":
		// Separated values as they come in the wild. Row kinds: 0 plain, 1 quoted cells holding
		// the separator, 2 a quoted cell holding a line break, 3 blank line, 4 comment line,
		// 5 plain row ending in CR LF, 6 doubled quotes inside a quoted cell, 7 a bare quote
		// inside an unquoted cell, 8 an opening quote that is never closed. V bits 0-8: the
		// kinds in play (none: all but 8), bit 12: tabs instead of commas; P-1 (if P > 0): the
		// kind of the first row; N rows.
		sep := ","
		if v&(1<<12) != 0 {
			sep = "\t"
		}
		var kinds []int
		for k := 0; k < 9; k++ {
			if v&(1<<k) != 0 || (v&0x1ff == 0 && k != 8) {
				kinds = append(kinds, k)
			}
		}
		cols := 2 + int(in.Seed%4)
		var b bytes.Buffer
		for i, k := 0, clamp(n, 1, 3000); i < k; i++ {
			kind := kinds[r.Intn(len(kinds))]
			if i == 0 && p > 0 {
				kind = (p - 1) % 9
			}
			switch kind {
			case 3:
				b.WriteString("\n")
				continue
			case 4:
				fmt.Fprintf(&b, "# %s%s\"x\n", words[i%50:i%50+9], sep)
				continue
			}
			for j := 0; j < cols; j++ {
				if j > 0 {
					b.WriteString(sep)
				}
				w := words[(i+j)%50 : (i+j)%50+5]
				switch {
				case kind == 1 && j%2 == 0:
					fmt.Fprintf(&b, "\"%s%s %d\"", w, sep, i)
				case kind == 2 && j == 1:
					fmt.Fprintf(&b, "\"%s\n%d\"", w, i)
				case kind == 6 && j == 0:
					fmt.Fprintf(&b, "\"%s \"\"%d\"\" x\"", w, i)
				case kind == 7 && j == 1:
					fmt.Fprintf(&b, "%s\"%d", w, i)
				case kind == 8 && j == cols-1:
					fmt.Fprintf(&b, "\"%s %d", w, i)
				default:
					fmt.Fprintf(&b, "r%dc%d", i, j)
				}
			}
			if kind == 5 {
				b.WriteString("\r")
			}
			b.WriteString("\n")
		}
		return b.Bytes()
	case "csv", "csv_ragged", "csv_big", "tsv":
		sep := ","
		if in.Fam == "tsv" {
			sep = "\t"
		}
		rows, cols := clamp(n, 2, 20000), clamp(v, 2, 12)
		if in.Fam == "csv_big" {
			rows = clamp(n, 300, 20000)
		}
		var b bytes.Buffer
		for i := 0; i < rows; i++ {
			c := cols
			if in.Fam == "csv_ragged" && i == clamp(p, 1, rows-1) {
				c = cols + 1
			}
			for j := 0; j < c; j++ {
				if j > 0 {
					b.WriteString(sep)
				}
				fmt.Fprintf(&b, "r%dc%d", i, j)
			}
			b.WriteString("\n")
		}
		return b.Bytes()
	case "png":
		b := append([]byte("\x89PNG\r\n\x1a\n\x00\x00\x00\rIHDR"), make([]byte, clamp(n, 0, 1<<16))...)
		r.Bytes(b[16:])
		return b
	case "gif":
		return append([]byte("GIF89a\x01\x00\x01\x00\x80\x00\x00"), textN(clamp(n, 0, 1<<16), in.Seed)...)
	case "pdf":
		return append([]byte("%PDF-1.7\n%\xe2\xe3\xcf\xd3\n"), textN(clamp(n, 0, 1<<16), in.Seed)...)
	case "zip":
		name := "hello.txt"
		b := []byte("PK\x03\x04\x14\x00\x00\x00\x00\x00\x00\x00\x00\x00\x00\x00\x00\x00\x00\x00\x00\x00\x00\x00\x00\x00")
		b = append(b, byte(len(name)), 0, 0, 0)
		b = append(b, name...)
		return append(b, textN(clamp(n, 0, 1<<16), in.Seed)...)
	case "docx":
		// Two stored entries; the deciding "word/" name sits P bytes in.
		entry := func(name string, body []byte) []byte {
			h := []byte("PK\x03\x04\x14\x00\x00\x00\x00\x00\x00\x00\x00\x00\x00\x00\x00\x00")
			sz := len(body)
			h = append(h, byte(sz), byte(sz>>8), byte(sz>>16), byte(sz>>24))
			h = append(h, byte(sz), byte(sz>>8), byte(sz>>16), byte(sz>>24))
			h = append(h, byte(len(name)), byte(len(name)>>8), 0, 0)
			h = append(h, name...)
			return append(h, body...)
		}
		body := bytes.Repeat([]byte("x"), clamp(p, 1, 60000))
		b := entry("[Content_Types].xml", body)
		b = append(b, entry("word/document.xml", textN(clamp(n, 1, 1<<16), in.Seed))...)
		return b
	case "ole":
		b := make([]byte, clamp(n, 8, 1<<16))
		copy(b, "\xd0\xcf\x11\xe0\xa1\xb1\x1a\xe1")
		return b
	case "elf":
		b := append([]byte("\x7fELF\x02\x01\x01\x00"), make([]byte, clamp(n, 16, 1<<16))...)
		b[16] = 2
		return b
	case "gzip":
		return append([]byte("\x1f\x8b\x08\x00\x00\x00\x00\x00\x00\x03"), textN(clamp(n, 0, 1<<16), in.Seed)...)
	case "random":
		b := make([]byte, clamp(n, 2, 1<<25))
		r.Bytes(b)
		b[0] = 0x01 // keep it binary and free of known magic numbers
		b[1] = 0x02
		return b
	case "tar":
		names := []string{"hello.txt", "dir/a/b/c.json", "x", "archive/member-with-a-long-name.bin"}
		return tarHeader(names[v%len(names)], clamp(n, 0, 1<<20))
	case "sample":
		return append([]byte(nil), sample(clamp(v, 0, 1<<30)+clamp(p, 0, 1<<30))...)
	case "tar_poly":
		// a valid tar archive whose first member is named after the leading bytes of another
		// format's sample: an early signature of one format inside a format recognised late
		lead := corpus(clamp(v, 0, 1<<30))
		k := clamp(p, 2, 24)
		if k > len(lead) {
			k = len(lead)
		}
		name := make([]byte, 0, k+8)
		for _, c := range lead[:k] {
			if c == 0 {
				break // the name field ends at the first NUL
			}
			name = append(name, c)
		}
		return tarHeader(string(name)+"-x.bin", clamp(n, 0, 1<<16))
	case "overlay":
		// the sample of one format with its first bytes replaced by those of another
		// (formats recognised at an offset - 128, 257, 32769 - under an early signature)
		a := corpus(clamp(v, 0, 1<<30))
		b := append([]byte(nil), corpus(clamp(p, 0, 1<<30))...)
		k := clamp(n, 1, 64)
		if k > len(a) {
			k = len(a)
		}
		if k > len(b) {
			b = append(b, make([]byte, k-len(b))...)
		}
		copy(b, a[:k])
		return b
	case "corpus":
		// the repository's own sample for some format, optionally followed by n bytes of text
		// (p selects: 0 as is, 1 padded with text, 2 padded with zero bytes)
		b := append([]byte(nil), corpus(clamp(v, 0, 1<<30))...)
		switch clamp(p, 0, 2) {
		case 1:
			b = append(b, textN(clamp(n, 0, 1<<16), in.Seed)...)
		case 2:
			b = append(b, make([]byte, clamp(n, 0, 1<<16))...)
		}
		return b
	case "poison":
		// inputs that make a trap detector (model.Pred.PanicPrefix) panic: v even binary, v odd textual
		return append([]byte(PoisonPrefix(v)), textN(clamp(n, 0, 1<<12), in.Seed)...)
	case "utf8":
		// valid UTF-8 text dense in 2-, 3- and 4-byte sequences, so that a cut at
		// almost any limit falls inside a rune; V selects the mix, P shifts the phase
		runes := [][]rune{[]rune("é ü ñ "), []rune("語 文 字 € "), []rune("😀 𝄞 𐍈 "), []rune("aé語😀b ")}[v%4]
		var sb strings.Builder
		for i := 0; i < clamp(p, 0, 3); i++ {
			sb.WriteByte('x')
		}
		for i := 0; sb.Len() < clamp(n, 1, 1<<20); i++ {
			sb.WriteRune(runes[i%len(runes)])
		}
		return []byte(sb.String())
	case "bom8":
		// UTF-8 byte-order mark, optional white space, then lower/upper-case markup or text
		bodies := []string{"<html><head><meta charset=\"iso-8859-5\"></head><body>x</body></html>", "<?xml version=\"1.0\"?><a/>", "plain text after a mark",
			"<!doctype html><title>t</title>", "{\"a\":1}", "<HTML><BODY>upper</BODY></HTML>", "<div>fragment</div>", "<script>var x</script>"}
		ws := []string{"", " ", "\n\t ", "\r\n"}
		return []byte("\xef\xbb\xbf" + ws[clamp(p, 0, 1<<30)%len(ws)] + bodies[v%len(bodies)] + string(textN(clamp(n, 0, 1<<14), in.Seed)))
	case "shebang":
		ls := []string{"#!/usr/bin/env python\nprint('x')\n", "#!/usr/bin/perl\nprint 1;\n", "#!/usr/bin/lua\nprint(1)\n", "#!/usr/bin/env node\nconsole.log(1)\n"}
		return append([]byte(ls[v%len(ls)]), textN(clamp(n, 0, 1<<16), in.Seed)...)
	case "svg":
		return []byte("<svg xmlns=\"http://www.w3.org/2000/svg\" width=\"1\" height=\"1\"><!-- " + string(textN(clamp(n, 0, 1<<16), in.Seed)) + " --></svg>")
	case "rtf":
		return append([]byte("{\\rtf1\\ansi "), append(textN(clamp(n, 0, 1<<16), in.Seed), '}')...)
	case "srt":
		return []byte("1\n00:00:01,000 --> 00:00:02,000\n" + string(textN(clamp(n, 1, 1<<12), in.Seed)) + "\n")
	case "vcard":
		return []byte("BEGIN:VCARD\nVERSION:3.0\nFN:" + string(textN(clamp(n, 1, 200), in.Seed)) + "\nEND:VCARD\n")
	}
	return []byte("unknown family " + in.Fam)
}
