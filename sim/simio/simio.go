// Package simio is the simulated I/O environment: byte streams delivered
// according to an explicit, recorded delivery schedule with optional injected
// faults, and a tiny in-memory file system used by the os shim.
package simio

import (
	"errors"
	"fmt"
	"io"
	"os"
	"syscall"

	"github.com/gabriel-vasile/mimetype/internal/verifsim/core"
)

// ErrInjected is the sentinel read error. It is distinct from io.EOF and
// io.ErrUnexpectedEOF.
var ErrInjected = errors.New("verifsim: injected read error")

// Delivery is the environment's side of one stream: how the bytes are chunked,
// how end of input is signalled and where (if anywhere) the stream fails.
type Delivery struct {
	// Chunks are the maximum sizes of successive reads, cycled. A value of 0
	// is a zero-length read with a nil error (at most 3 in a row are honoured).
	// Empty means "as much as the caller asks for".
	Chunks []int `json:"chunks,omitempty"`
	// EOFWithData returns io.EOF in the same call as the last bytes.
	EOFWithData bool `json:"eof_with_data,omitempty"`
	// FaultAt >= 0: the stream fails at that byte offset (bytes before it are
	// delivered). -1: no fault.
	FaultAt int `json:"fault_at"`
	// FaultWithData returns the error in the same call as the last bytes
	// before FaultAt (when there are any), otherwise alone.
	FaultWithData bool `json:"fault_with_data,omitempty"`
	// Scribble overwrites p[n:] during Read, as io.Reader permits.
	Scribble bool `json:"scribble,omitempty"`
	// ErrWraps: 0 the plain sentinel; 1 the sentinel wrapping io.EOF; 2 wrapping
	// io.ErrUnexpectedEOF. A reader signals end of input with io.EOF itself, so
	// an error that merely wraps it is a failure like any other.
	// 3: an error that calls itself temporary and a timeout (net.Error style);
	// 4: wrapping syscall.EAGAIN; 5: wrapping syscall.EINTR; 6: wrapping
	// os.ErrDeadlineExceeded; 7: wrapping io.ErrNoProgress; 8, 9: values of types that are not
	// comparable (a list of errors; a struct holding a map). A failure is a failure
	// whatever it calls itself: the statement says "any error other than end of input".
	ErrWraps int `json:"err_wraps,omitempty"`
	// Recover: the stream fails once and then carries on delivering (a transient
	// condition); a consumer that retries gets the rest.
	Recover bool `json:"recover,omitempty"`
	// Sniff: the reader looks at what it is about to deliver with the library's own
	// Detect (a decompressing or logging reader that sniffs its payload): a call
	// into the library from inside the caller's Read.
	Sniff bool `json:"sniff,omitempty"`
}

// SniffHook is what a sniffing reader calls (set by the harness to a Detect call).
var SniffHook func(b []byte)

type tempErr struct{}

func (tempErr) Error() string {
	return "verifsim: injected read error (resource temporarily unavailable)"
}
func (tempErr) Temporary() bool { return true }
func (tempErr) Timeout() bool   { return true }
func (tempErr) Unwrap() error   { return ErrInjected }

// listErr and bagErr are errors whose dynamic types are not comparable (a list of errors, as
// go/scanner.ErrorList or a validator's result; a struct holding a map, passed by value):
// legal error values that must not be used as map keys or compared with == against their like.
type listErr []error

func (l listErr) Error() string   { return fmt.Sprintf("verifsim: %d errors, first: %v", len(l), l[0]) }
func (l listErr) Unwrap() []error { return l }

type bagErr struct {
	ctx map[string]string
	err error
}

func (b bagErr) Error() string { return "verifsim: injected read error " + b.ctx["op"] }
func (b bagErr) Unwrap() error { return b.err }

// Flavours of the injected error, by Delivery.ErrWraps.
var flavours = []error{
	nil, nil, nil,
	tempErr{},
	fmt.Errorf("%w (%w)", ErrInjected, syscall.EAGAIN),
	fmt.Errorf("%w (%w)", ErrInjected, syscall.EINTR),
	fmt.Errorf("%w (%w)", ErrInjected, os.ErrDeadlineExceeded),
	fmt.Errorf("%w (%w)", ErrInjected, io.ErrNoProgress),
	listErr{ErrInjected, io.ErrShortBuffer},
	bagErr{ctx: map[string]string{"op": "read"}, err: ErrInjected},
}

// NFlavours is the number of ErrWraps values.
var NFlavours = len(flavours)

// Flavour returns the error for an ErrWraps value >= 3 (nil otherwise).
func Flavour(w int) error {
	if w >= 3 && w < len(flavours) {
		return flavours[w]
	}
	return nil
}

// ErrInjectedEOF and ErrInjectedUEOF are failures whose chain contains the
// end-of-input sentinels without being them.
var (
	ErrInjectedEOF  = fmt.Errorf("%w (connection reset: %w)", ErrInjected, io.EOF)
	ErrInjectedUEOF = fmt.Errorf("%w (short packet: %w)", ErrInjected, io.ErrUnexpectedEOF)
)

// NoFault is a convenience delivery: everything at once.
func NoFault() Delivery { return Delivery{FaultAt: -1} }

// Stream implements io.Reader over data according to d.
type Stream struct {
	Data []byte
	D    Delivery
	Err  error // error to inject (defaults to ErrInjected)

	pos      int
	chunkPos int
	zeros    int

	// Observations.
	Handed    int  // bytes handed out
	Calls     int  // Read calls
	SawEOF    bool // io.EOF was returned
	Faulted   bool // the injected error was returned
	AfterEnd  int  // Read calls after EOF or the fault had been returned
	ZeroReads int
	MaxAsk    int // largest len(p)
	Closed    int
	Seeks     int // Seek calls (seekable wrapper only)
	MaxPos    int // furthest position ever reached
	ReadAts   int // ReadAt calls
	HandedAt  int // bytes handed out through ReadAt (the position does not move)
}

// Pos is the current read position.
func (s *Stream) Pos() int { return s.pos }

// Remaining is the number of bytes not yet delivered (what a Len() method reports).
func (s *Stream) Remaining() int { return len(s.Data) - s.pos }

// Seek implements io.Seeker for the seekable reader wrapper. Seeking does not
// deliver bytes; the harness looks at the final and the furthest position.
func (s *Stream) Seek(off int64, whence int) (int64, error) {
	s.Seeks++
	var np int64
	switch whence {
	case io.SeekStart:
		np = off
	case io.SeekCurrent:
		np = int64(s.pos) + off
	case io.SeekEnd:
		np = int64(len(s.Data)) + off
	default:
		return 0, errors.New("verifsim: invalid whence")
	}
	if np < 0 {
		return 0, errors.New("verifsim: negative position")
	}
	if np > int64(len(s.Data)) {
		np = int64(len(s.Data))
	}
	s.pos = int(np)
	if s.pos > s.MaxPos {
		s.MaxPos = s.pos
	}
	s.SawEOF = false
	return np, nil
}

// ReadAt implements io.ReaderAt over the same content and fault: the position
// is not moved; the bytes of [off, off+len(p)) that lie before the fault offset
// (or the end) are delivered, and a short result carries the injected error or
// io.EOF. A full result carries a nil error.
func (s *Stream) ReadAt(p []byte, off int64) (int, error) {
	s.Calls++
	s.ReadAts++
	end := len(s.Data)
	faulty := s.D.FaultAt >= 0 && s.D.FaultAt <= len(s.Data)
	if faulty {
		end = s.D.FaultAt
	}
	if len(p) == 0 {
		return 0, nil
	}
	n := 0
	if off < int64(end) {
		n = copy(p, s.Data[off:end])
	}
	if int(off)+n > s.MaxPos {
		s.MaxPos = int(off) + n
	}
	s.HandedAt += n
	if n == len(p) {
		return n, nil
	}
	if faulty {
		s.Faulted = true
		return n, s.injected()
	}
	return n, io.EOF
}

func (s *Stream) nextChunk(want int) int {
	if len(s.D.Chunks) == 0 {
		return want
	}
	c := s.D.Chunks[s.chunkPos%len(s.D.Chunks)]
	s.chunkPos++
	if c == 0 {
		if s.zeros >= 3 {
			return want
		}
		s.zeros++
		return 0
	}
	s.zeros = 0
	if c < 0 || c > want {
		return want
	}
	return c
}

func (s *Stream) injected() error {
	if s.Err != nil {
		return s.Err
	}
	if f := Flavour(s.D.ErrWraps); f != nil {
		return f
	}
	switch s.D.ErrWraps {
	case 1:
		return ErrInjectedEOF
	case 2:
		return ErrInjectedUEOF
	}
	return ErrInjected
}

// Read implements io.Reader.
func (s *Stream) Read(p []byte) (n int, err error) {
	t := core.Cur()
	if t != nil {
		t.Yield(core.KRead, nil, "reader", int64(len(p)))
	}
	n, err = s.read(p)
	if t != nil {
		t.Yield(core.KReadRet, nil, "reader", int64(n))
	}
	return n, err
}

func (s *Stream) read(p []byte) (int, error) {
	s.Calls++
	if len(p) > s.MaxAsk {
		s.MaxAsk = len(p)
	}
	if s.Faulted && !s.D.Recover {
		s.AfterEnd++
		return 0, s.injected()
	}
	if s.Faulted {
		s.AfterEnd++ // read again after a failure (a retrying consumer)
	}
	if s.SawEOF {
		s.AfterEnd++
		return 0, io.EOF
	}
	if len(p) == 0 {
		return 0, nil
	}
	end := len(s.Data)
	faulty := s.D.FaultAt >= 0 && s.D.FaultAt <= len(s.Data) && !(s.Faulted && s.D.Recover)
	if faulty {
		end = s.D.FaultAt
	}
	if s.pos == end {
		if faulty {
			s.Faulted = true
			return 0, s.injected()
		}
		s.SawEOF = true
		return 0, io.EOF
	}
	n := s.nextChunk(len(p))
	if n == 0 {
		s.ZeroReads++
		return 0, nil
	}
	if n > end-s.pos {
		n = end - s.pos
	}
	copy(p, s.Data[s.pos:s.pos+n])
	if s.D.Sniff && SniffHook != nil && s.Calls <= 3 {
		SniffHook(p[:n])
	}
	s.pos += n
	s.Handed += n
	if s.pos > s.MaxPos {
		s.MaxPos = s.pos
	}
	if s.D.Scribble {
		// the head and the very end of the unused part (all of it when it is small)
		for i := n; i < len(p) && i < n+4096; i++ {
			p[i] = 0xA5 ^ byte(i)
		}
		for i := len(p) - 64; i < len(p); i++ {
			if i >= n {
				p[i] = 0xA5 ^ byte(i)
			}
		}
	}
	if s.pos == end {
		if faulty && s.D.FaultWithData {
			s.Faulted = true
			return n, s.injected()
		}
		if !faulty && s.D.EOFWithData {
			s.SawEOF = true
			return n, io.EOF
		}
	}
	return n, nil
}

// FileSpec describes one simulated file.
type FileSpec struct {
	Data    []byte
	D       Delivery
	OpenErr error // returned by Open when non-nil
	IsDir   bool  // Open succeeds, Read fails with EISDIR
	ReadErr error // error used for the injected read fault (default: EIO wrapped in *PathError by the shim)
	// StatSize > 0: Stat reports StatSize-1 bytes instead of len(Data) - a procfs or
	// sysfs entry (regular file, size 0, content nevertheless), a file that grew
	// after it was stat-ed, a stale fs.File size. 0: the accurate size.
	StatSize int
	// Fifo: a named pipe - not a regular file (Stat says so), no size, no Seek, no
	// ReadAt; bytes arrive as the delivery schedule says (short reads are the rule).
	Fifo bool
}

// FS is the simulated file table. It is written only between runs (by the
// goroutine that also spawns the tasks) and read by tasks.
var FS = map[string]*FileSpec{}

// Prefix marks simulated paths.
const Prefix = "sim:/"

// IsSim reports whether a path belongs to the simulated file system.
func IsSim(name string) bool { return len(name) >= len(Prefix) && name[:len(Prefix)] == Prefix }

// Opened collects every stream opened through the os shim in the current
// operation, so that the harness can read the observations. Task-owned: the
// harness gives each operation its own collector through SetCollector.
type Collector struct {
	Streams []*Stream
	Opens   int
	Closes  int
}
