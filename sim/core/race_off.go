//go:build !race

package core

import "unsafe"

// RaceEnabled reports whether the binary was built with -race.
const RaceEnabled = false

func raceDisable()                      {}
func raceEnable()                       {}
func RaceErrors() int                   { return 0 }
func RaceAcquire(p unsafe.Pointer)      {}
func RaceReleaseMerge(p unsafe.Pointer) {}
