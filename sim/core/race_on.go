//go:build race

package core

import (
	"runtime"
	"unsafe"
)

// RaceEnabled reports whether the binary was built with -race.
const RaceEnabled = true

func raceDisable()                      { runtime.RaceDisable() }
func raceEnable()                       { runtime.RaceEnable() }
func RaceErrors() int                   { return runtime.RaceErrors() }
func RaceAcquire(p unsafe.Pointer)      { runtime.RaceAcquire(p) }
func RaceReleaseMerge(p unsafe.Pointer) { runtime.RaceReleaseMerge(p) }
