package core

// Rand is the simulator's only source of randomness: xoshiro256** seeded by
// splitmix64. It is deliberately not math/rand so that streams do not depend
// on the Go release and no global state is shared between goroutines.
type Rand struct{ s [4]uint64 }

func splitmix(x *uint64) uint64 {
	*x += 0x9e3779b97f4a7c15
	z := *x
	z = (z ^ (z >> 30)) * 0xbf58476d1ce4e5b9
	z = (z ^ (z >> 27)) * 0x94d049bb133111eb
	return z ^ (z >> 31)
}

// NewRand returns a generator for the given seed.
func NewRand(seed uint64) *Rand {
	r := &Rand{}
	x := seed
	for i := range r.s {
		r.s[i] = splitmix(&x)
	}
	return r
}

// Mix derives a sub-seed from a seed and a list of integers.
func Mix(seed uint64, vs ...uint64) uint64 {
	x := seed
	h := splitmix(&x)
	for _, v := range vs {
		x = h ^ (v * 0x9e3779b97f4a7c15)
		h = splitmix(&x)
	}
	return h
}

// MixString folds a string into a seed.
func MixString(seed uint64, s string) uint64 {
	h := seed ^ 0xcbf29ce484222325
	for i := 0; i < len(s); i++ {
		h ^= uint64(s[i])
		h *= 0x100000001b3
	}
	return Mix(h)
}

func rotl(x uint64, k uint) uint64 { return (x << k) | (x >> (64 - k)) }

// Uint64 returns the next value.
func (r *Rand) Uint64() uint64 {
	s := &r.s
	res := rotl(s[1]*5, 7) * 9
	t := s[1] << 17
	s[2] ^= s[0]
	s[3] ^= s[1]
	s[1] ^= s[2]
	s[0] ^= s[3]
	s[2] ^= t
	s[3] = rotl(s[3], 45)
	return res
}

// Intn returns a value in [0,n). n must be > 0.
func (r *Rand) Intn(n int) int {
	if n <= 1 {
		return 0
	}
	return int(r.Uint64() % uint64(n))
}

// Range returns a value in [lo,hi].
func (r *Rand) Range(lo, hi int) int {
	if hi <= lo {
		return lo
	}
	return lo + r.Intn(hi-lo+1)
}

// Chance returns true with probability num/den.
func (r *Rand) Chance(num, den int) bool { return r.Intn(den) < num }

// Bytes fills b with random bytes.
func (r *Rand) Bytes(b []byte) {
	for i := range b {
		b[i] = byte(r.Uint64())
	}
}
