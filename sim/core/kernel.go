// Package core is the deterministic simulator kernel: a baton scheduler for
// caller goroutines ("tasks"), a model of sync.Mutex / sync.RWMutex, a
// nondeterministic-choice model of sync.Pool, an event log and probe counters.
//
// The kernel is single-threaded: every piece of simulator state in this file
// is touched only by the goroutine that called Run. Tasks talk to it by
// sending small request values over a channel whose synchronisation is hidden
// from the race detector (see race_on.go), so that serialised execution does
// not order the tasks' memory accesses for ThreadSanitizer.
package core

import (
	"bytes"
	"fmt"
	"os"
	"runtime"
	"runtime/debug"
	"sort"
	"strconv"
	"strings"
	"sync"
	"sync/atomic"
	"time"
	"unsafe"
)

// Kind names a yield point.
type Kind uint8

// Yield point kinds. The order is part of the event-log hash; append only.
const (
	KStart Kind = iota
	KFinish
	KPanic
	KOpInvoke
	KOpReturn
	KYield
	KRLock
	KRUnlock
	KLock
	KUnlock
	KAfterUnlock
	KMLock
	KMUnlock
	KTryLock
	KTryRLock
	KAtomicLoad
	KAtomicStore
	KAtomicRMW
	KAfterStore
	KPoolGet
	KPoolPut
	KRead
	KReadRet
	KDetector
	KOpen
	KClose
	KAnnounce // internal: a writer took the RWMutex's writer slot and waits for readers
	KHandoff  // harness: a value is handed from one task to another
	KSpawn    // the library started a goroutine (go statement rewritten to core.Go)
	KWGAdd
	KWGWait
	KCondEnq // sync.Cond.Wait: the caller joins the notify list (before unlocking L)
	KCondWait
	KCondSignal
	KCondBroadcast
	kindCount
)

var kindNames = [...]string{
	"start", "finish", "panic", "invoke", "return", "yield", "rlock", "runlock",
	"lock", "unlock", "after-unlock", "mlock", "munlock", "trylock", "tryrlock",
	"atomic-load", "atomic-store", "atomic-rmw", "after-store", "pool-get",
	"pool-put", "read", "read-ret", "detector", "open", "close", "announce",
	"handoff", "spawn", "wg-add", "wg-wait", "cond-enqueue", "cond-wait", "cond-signal", "cond-broadcast",
}

func (k Kind) String() string {
	if int(k) < len(kindNames) {
		return kindNames[k]
	}
	return fmt.Sprintf("kind%d", int(k))
}

type request struct {
	t    *Task
	kind Kind
	obj  any    // identity of the primitive (pointer), never dereferenced by the kernel
	name string // stable, human readable class of obj ("rwmutex", "pool:*json.parserState", ...)
	arg  int64
	val  any // pool: the object put
}

type reply struct {
	val any
	ok  bool
}

// Task is one simulated caller goroutine.
type Task struct {
	ID     int
	k      *Kernel
	resume chan reply
	fin    chan struct{}

	// kernel-owned
	pend         request
	hasPend      bool
	finished     bool
	phase        int  // RWMutex.Lock: 0 = needs the writer slot, 1 = announced, waiting for readers
	granted      bool // RLock already granted by an Unlock
	curOp        int
	tag          string // tag of the operation in flight (for pool probes)
	inOp         bool
	loadedNoLock bool         // did an atomic load in this operation and has not taken a lock since
	inRead       bool         // is between reads of a caller-supplied reader
	spawned      bool         // started by the library (go statement), not by the plan
	blockedAt    string       // where (goroutine state and stack) it was found blocked outside the model
	outside      bool         // blocked on a primitive the simulator does not model (a channel): not schedulable until it comes back
	goid         atomic.Int64 // written by the task's goroutine, read by the kernel: atomically, the hand-off is hidden from the race detector
	condTicket   int          // sync.Cond.Wait: ticket on the notify list (0: none)

	// task-owned, read by the kernel only after join
	panicMsg string

	// Local is scratch space owned by the task goroutine itself (the harness
	// keeps the context of the operation in flight here). The kernel never
	// touches it.
	Local any
}

// cur is the task currently holding the baton (nil: no simulation is running
// or the caller is not a task; shims then pass straight through).
var cur atomic.Pointer[Task]

// Cur returns the running task or nil. While goroutines that the library started
// outside any simulation are still alive (a worker launched at package
// initialisation), a caller that is not the baton holder's goroutine is such a
// goroutine: it gets nil, i.e. the real primitives, and runs as part of the
// environment rather than as a task.
func Cur() *Task {
	t := cur.Load()
	if t == nil && (anyOutside.Load() == 0 || !simActive.Load()) {
		return nil
	}
	if anyOutside.Load() != 0 || strays.Load() > 0 {
		// not every goroutine that gets here is the baton holder: a task that was
		// blocked on a channel and has just been released finds itself by goroutine;
		// a goroutine the library started outside any simulation is no task at all
		if v, ok := byGoid.Load(curGoid()); ok {
			return v.(*Task)
		}
		if strays.Load() > 0 {
			return nil
		}
	}
	return t
}

// simActive is true while a simulation runs (between two decisions nobody holds the baton).
var simActive atomic.Bool

// strays counts live goroutines started by the library while no simulation ran.
var strays atomic.Int32

// progress is bumped on every kernel step and every reference evaluation; the
// watchdog turns a stalled process into exit status 2 ("cannot decide").
var progress atomic.Uint64

// Tick tells the watchdog that the process is alive.
func Tick() { progress.Add(1) }

// StartWatchdog exits the process with status 2 when nothing moved for d.
func StartWatchdog(d time.Duration, what func() string) {
	go func() {
		last := progress.Load()
		for {
			time.Sleep(d)
			now := progress.Load()
			if now == last {
				fmt.Fprintf(os.Stderr, "HARNESS watchdog: no progress for %v (%s)\n", d, what())
				fmt.Printf("{\"harness_fault\":%q}\n", "watchdog: "+what())
				os.Exit(2)
			}
			last = now
		}
	}()
}

func (t *Task) call(r request) reply {
	r.t = t
	raceDisable()
	t.k.req <- r
	rep := <-t.resume
	raceEnable()
	return rep
}

// Yield is a plain scheduling point.
func (t *Task) Yield(kind Kind, obj any, name string, arg int64) {
	t.call(request{kind: kind, obj: obj, name: name, arg: arg})
}

// Acquire blocks (in the model) until the lock operation is granted.
func (t *Task) Acquire(kind Kind, obj any, name string) {
	t.call(request{kind: kind, obj: obj, name: name})
}

// Try performs a TryLock / TryRLock on the model.
func (t *Task) Try(kind Kind, obj any, name string) bool {
	return t.call(request{kind: kind, obj: obj, name: name}).ok
}

// PoolGet asks the pool model for an object; ok=false means "call New".
func (t *Task) PoolGet(pool any, name string) (any, bool) {
	rep := t.call(request{kind: KPoolGet, obj: pool, name: name})
	return rep.val, rep.ok
}

// PoolPut hands an object to the pool model.
func (t *Task) PoolPut(pool any, name string, x any) {
	t.call(request{kind: KPoolPut, obj: pool, name: name, val: x})
}

// outstanding counts goroutines the library started while no simulation was
// running (package initialisation, the reference process, the preliminary
// Extend calls of a plan): they are real goroutines, and the next simulation
// waits for them, so that nothing runs outside the baton during a run.
var outstanding sync.WaitGroup

// Go is what a go statement of the library is rewritten to. Inside a simulation
// the new goroutine is a task of its own, scheduled like every other; the go
// statement is a scheduling point and orders what the parent did before it.
func Go(fn func()) {
	t := Cur()
	if t == nil {
		outstanding.Add(1)
		strays.Add(1)
		go func() {
			defer func() {
				strays.Add(-1)
				outstanding.Done()
			}()
			fn()
		}()
		return
	}
	tok := new(int64)
	local := t.Local // the harness's context of the operation in flight is inherited
	RaceReleaseMerge(unsafe.Pointer(tok))
	t.call(request{kind: KSpawn, val: func(ct *Task) {
		RaceAcquire(unsafe.Pointer(tok))
		ct.Local = local
		fn()
	}})
}

// ChanPoint is inserted next to every channel operation of the library (send,
// receive, select): channels are not modelled, but an operation on one is a
// synchronisation point of the code under test, hence a scheduling point.
func ChanPoint() {
	t := Cur()
	if t == nil {
		return
	}
	t.Yield(KYield, nil, "chan", 0)
}

// WaitOutstanding waits (up to three seconds) for the goroutines started outside a
// simulation to finish; those that stay (a worker that lives for ever) take part
// in the following runs as free-running environment, not as tasks.
func WaitOutstanding() {
	if strays.Load() == 0 {
		return
	}
	done := make(chan struct{})
	go func() { outstanding.Wait(); close(done) }()
	select {
	case <-done:
	case <-time.After(3 * time.Second):
	}
}

// WGAdd / WGWait / Cond* are the modelled halves of sync.WaitGroup and sync.Cond.
func (t *Task) WGAdd(wg any, delta int) {
	t.call(request{kind: KWGAdd, obj: wg, name: "waitgroup", arg: int64(delta)})
}
func (t *Task) WGWait(wg any)       { t.call(request{kind: KWGWait, obj: wg, name: "waitgroup"}) }
func (t *Task) CondEnqueue(c any)   { t.call(request{kind: KCondEnq, obj: c, name: "cond"}) }
func (t *Task) CondWait(c any)      { t.call(request{kind: KCondWait, obj: c, name: "cond"}) }
func (t *Task) CondSignal(c any)    { t.call(request{kind: KCondSignal, obj: c, name: "cond"}) }
func (t *Task) CondBroadcast(c any) { t.call(request{kind: KCondBroadcast, obj: c, name: "cond"}) }

// OpInvoke / OpReturn stamp the history of public API calls.
func (t *Task) OpInvoke(op int, tag string) {
	t.call(request{kind: KOpInvoke, arg: int64(op), name: tag})
}
func (t *Task) OpReturn(op int) { t.call(request{kind: KOpReturn, arg: int64(op)}) }

// SchedSpec selects a scheduling policy.
type SchedSpec struct {
	Kind    string `json:"kind"`              // random | pct | rtc
	D       int    `json:"d,omitempty"`       // pct: number of priority change points
	Preempt int    `json:"preempt,omitempty"` // rtc: preemption chance per mille
	Horizon int    `json:"horizon,omitempty"` // pct: expected run length in steps
}

// Decisions is the recorded (or to be replayed) choice sequence of one run.
type Decisions struct {
	Sched []int `json:"sched"` // task id chosen at every step
	Pool  []int `json:"pool"`  // per Get: index into the pool's set, -1 = New
}

// RunSpec describes one simulated run.
type RunSpec struct {
	Bodies   []func(t *Task)
	Sched    SchedSpec
	Pool     string // fresh | lifo | fifo | adversarial | steal
	Seed     uint64
	Replay   *Decisions
	MaxSteps int
	Trace    bool
}

// Event is one applied request.
type Event struct {
	Step int
	Task int
	Kind Kind
	Obj  string
	Arg  int64
}

func (e Event) String() string {
	return fmt.Sprintf("%d t%d %s %s %d", e.Step, e.Task, e.Kind, e.Obj, e.Arg)
}

// Outcome is what the kernel knows at the end of a run.
type Outcome struct {
	Class       string // "", deadlock, panic, budget, misuse
	Msg         string
	Steps       int
	LogHash     uint64
	SchedSig    uint64
	ConflictSig uint64
	Decisions   Decisions
	Diverged    bool // a replayed decision could not be honoured
	Probes      map[string]int
	Races       int
	Invoke      [][]int // [task][op] event sequence numbers, -1 = never
	Return      [][]int
	Trace       []Event
	Switches    int
	PoolServed  int
	Tainted     bool // parked goroutines were abandoned; the process must not run another simulation
}

type lockState struct {
	name     string
	readers  int
	writer   *Task
	wOwner   *Task
	mOwner   *Task
	rholders map[*Task]int
}

type poolObj struct {
	val  any
	by   int    // task that released it
	tag  string // tag of the op that released it
	step int
}

type poolState struct {
	name string
	set  []poolObj
}

// Kernel runs simulations, one at a time.
type Kernel struct {
	req   chan request
	tasks []*Task
	rng   *Rand
	spec  *RunSpec
	out   *Outcome

	locks     map[any]*lockState
	lockNames int
	pools     map[any]*poolState
	names     map[any]string
	nameCount map[string]int

	last      *Task
	step      int
	schedPos  int
	poolPos   int
	prio      []int
	changeAt  map[int]bool
	lowPrio   int
	hash      uint64
	ssig      uint64
	csig      uint64
	insideRL  int // tasks currently holding a read lock (for probes)
	detParked int

	tick  *time.Ticker
	wgs   map[any]int        // modelled WaitGroup counters
	conds map[any]*condState // modelled sync.Cond notify lists
}

type condState struct {
	next     int   // next ticket
	waiting  []int // tickets on the notify list, oldest first
	signaled map[int]bool
}

func (k *Kernel) cond(obj any) *condState {
	c := k.conds[obj]
	if c == nil {
		c = &condState{next: 1, signaled: map[int]bool{}}
		k.conds[obj] = c
	}
	return c
}

// NewKernel returns a kernel.
func NewKernel() *Kernel {
	return &Kernel{req: make(chan request), tick: time.NewTicker(2 * time.Millisecond)}
}

// Probe bumps a named counter of the running simulation. Kernel goroutine only.
func (k *Kernel) probe(name string) { k.out.Probes[name]++ }

func fnv(h uint64, vs ...uint64) uint64 {
	for _, v := range vs {
		for i := 0; i < 8; i++ {
			h ^= (v >> (8 * uint(i))) & 0xff
			h *= 0x100000001b3
		}
	}
	return h
}

func fnvs(h uint64, s string) uint64 {
	for i := 0; i < len(s); i++ {
		h ^= uint64(s[i])
		h *= 0x100000001b3
	}
	return h
}

func (k *Kernel) objName(r request) string {
	if r.obj == nil {
		return r.name
	}
	if n, ok := k.names[r.obj]; ok {
		return n
	}
	c := k.nameCount[r.name]
	k.nameCount[r.name] = c + 1
	n := fmt.Sprintf("%s#%d", r.name, c)
	k.names[r.obj] = n
	return n
}

func (k *Kernel) logEvent(t *Task, kind Kind, obj string, arg int64) int {
	seq := k.step
	k.hash = fnvs(fnv(k.hash, uint64(seq), uint64(t.ID), uint64(kind), uint64(arg)), obj)
	k.ssig = fnv(k.ssig, uint64(t.ID), uint64(kind))
	switch kind {
	case KRLock, KLock, KAnnounce, KAtomicStore, KAtomicLoad, KAtomicRMW, KPoolGet, KMLock, KUnlock, KRUnlock:
		k.csig = fnv(k.csig, uint64(t.ID), uint64(kind), uint64(arg))
	}
	if k.spec.Trace {
		k.out.Trace = append(k.out.Trace, Event{seq, t.ID, kind, obj, arg})
	}
	return seq
}

func (k *Kernel) lock(r request) *lockState {
	ls := k.locks[r.obj]
	if ls == nil {
		ls = &lockState{name: k.objName(r), rholders: map[*Task]int{}}
		k.locks[r.obj] = ls
	}
	return ls
}

func (k *Kernel) grantable(t *Task) bool {
	if !t.hasPend || t.finished || t.outside {
		return false
	}
	r := t.pend
	switch r.kind {
	case KRLock:
		if t.granted {
			return true
		}
		return k.lock(r).wOwner == nil
	case KLock:
		ls := k.lock(r)
		if t.phase == 0 {
			return ls.wOwner == nil
		}
		return ls.readers == 0
	case KMLock:
		return k.lock(r).mOwner == nil
	case KWGWait:
		return k.wgs[r.obj] <= 0
	case KCondWait:
		return k.cond(r.obj).signaled[t.condTicket]
	}
	return true
}

func (k *Kernel) fail(class, msg string) {
	if k.out.Class == "" {
		k.out.Class = class
		k.out.Msg = msg
	}
}

// apply performs the effect of t's pending request. It returns whether the
// task is to be resumed and with what.
func (k *Kernel) apply(t *Task) (resume bool, rep reply) {
	r := t.pend
	name := k.objName(r)
	switch r.kind {
	case KStart:
		k.logEvent(t, r.kind, "", 0)
	case KOpInvoke:
		t.curOp = int(r.arg)
		t.tag = r.name
		t.inOp, t.loadedNoLock, t.inRead = true, false, false
		for _, u := range k.tasks {
			if u != t && u.inOp && ((t.tag == "lookup" && u.tag == "extend") || (t.tag == "extend" && u.tag == "lookup")) {
				k.probe("lookup_while_extend_in_flight")
			}
		}
		if t.ID < len(k.out.Invoke) {
			k.stamp(&k.out.Invoke[t.ID], int(r.arg), k.logEvent(t, r.kind, "", r.arg))
		}
	case KOpReturn:
		t.inOp, t.loadedNoLock, t.inRead = false, false, false
		if t.ID < len(k.out.Return) {
			k.stamp(&k.out.Return[t.ID], int(r.arg), k.logEvent(t, r.kind, "", r.arg))
		}
	case KRLock:
		ls := k.lock(r)
		if t.granted {
			t.granted = false
		} else {
			ls.readers++
		}
		t.loadedNoLock, t.inRead = false, false
		if ls.rholders[t] > 0 {
			k.probe("recursive_rlock")
		}
		ls.rholders[t]++
		if ls.readers > 1 {
			k.probe("two_readers_inside")
		}
		k.logEvent(t, r.kind, name, int64(ls.readers))
	case KRUnlock:
		ls := k.lock(r)
		if ls.rholders[t] == 0 && ls.readers == 0 {
			k.fail("misuse", "RUnlock of unlocked RWMutex "+name)
		}
		if ls.readers > 0 {
			ls.readers--
		}
		if ls.rholders[t] > 0 {
			ls.rholders[t]--
		}
		k.logEvent(t, r.kind, name, int64(ls.readers))
	case KLock:
		ls := k.lock(r)
		if t.phase == 0 {
			ls.wOwner = t
			t.phase = 1
			if ls.readers > 0 {
				k.probe("writer_waits_for_readers")
				k.logEvent(t, KAnnounce, name, int64(ls.readers))
				return false, reply{}
			}
		}
		t.phase = 0
		ls.writer = t
		for _, u := range k.tasks {
			if u != t && u.inOp && u.loadedNoLock {
				k.probe("writer_granted_between_load_and_rlock")
			}
		}
		k.logEvent(t, r.kind, name, 0)
	case KUnlock:
		ls := k.lock(r)
		if ls.writer != t {
			k.fail("misuse", "Unlock of RWMutex "+name+" not held by the caller")
		}
		ls.writer = nil
		ls.wOwner = nil
		n := 0
		for _, u := range k.tasks {
			if u.hasPend && !u.finished && u.pend.kind == KRLock && u.pend.obj == r.obj && !u.granted {
				u.granted = true
				ls.readers++
				n++
			}
		}
		if n > 0 {
			k.probe("unlock_released_blocked_readers")
		}
		k.logEvent(t, r.kind, name, int64(n))
	case KMLock:
		ls := k.lock(r)
		ls.mOwner = t
		k.logEvent(t, r.kind, name, 0)
	case KMUnlock:
		ls := k.lock(r)
		if ls.mOwner == nil {
			k.fail("misuse", "Unlock of unlocked Mutex "+name)
		}
		ls.mOwner = nil
		k.logEvent(t, r.kind, name, 0)
	case KTryLock:
		ls := k.lock(r)
		ok := false
		if r.name == "mutex" {
			if ls.mOwner == nil {
				ls.mOwner = t
				ok = true
			}
		} else if ls.wOwner == nil && ls.readers == 0 {
			ls.wOwner = t
			ls.writer = t
			ok = true
		}
		rep.ok = ok
		k.logEvent(t, r.kind, name, b2i(ok))
	case KTryRLock:
		ls := k.lock(r)
		if ls.wOwner == nil {
			ls.readers++
			ls.rholders[t]++
			rep.ok = true
		}
		k.logEvent(t, r.kind, name, b2i(rep.ok))
	case KPoolGet:
		ps := k.pool(r)
		idx := k.choosePool(t, ps)
		k.out.Decisions.Pool = append(k.out.Decisions.Pool, idx)
		if idx >= 0 {
			o := ps.set[idx]
			ps.set = append(ps.set[:idx:idx], ps.set[idx+1:]...)
			rep.val, rep.ok = o.val, true
			k.out.PoolServed++
			k.probe("pool_served_recycled")
			if o.by != t.ID {
				k.probe("pool_object_migrated_between_tasks")
			}
			if o.tag != "" {
				k.probe("pool_served_after:" + o.tag)
			}
		} else if len(ps.set) > 0 {
			k.probe("pool_new_while_nonempty")
		}
		k.logEvent(t, r.kind, name, int64(idx))
	case KPoolPut:
		ps := k.pool(r)
		ps.set = append(ps.set, poolObj{val: r.val, by: t.ID, tag: t.tag, step: k.step})
		k.logEvent(t, r.kind, name, int64(len(ps.set)))
	case KDetector:
		for _, ls := range k.locks {
			if ls.rholders[t] > 0 {
				k.probe("detector_parked_under_rlock")
				for _, u := range k.tasks {
					if u != t && u.hasPend && u.pend.kind == KLock {
						k.probe("writer_blocked_behind_parked_walk")
					}
				}
				break
			}
		}
		k.logEvent(t, r.kind, name, r.arg)
	case KAtomicLoad:
		if t.inOp {
			t.loadedNoLock = true
		}
		k.logEvent(t, r.kind, name, r.arg)
	case KAtomicStore, KAtomicRMW:
		for _, u := range k.tasks {
			if u != t && u.inOp && u.loadedNoLock {
				k.probe("store_between_load_and_rlock")
			}
			if u != t && u.inOp && u.inRead {
				k.probe("store_while_reader_mid_delivery")
			}
		}
		k.logEvent(t, r.kind, name, r.arg)
	case KRead, KReadRet:
		if t.inOp {
			t.inRead = true
		}
		k.logEvent(t, r.kind, name, r.arg)
	case KSpawn:
		nt := k.newTask(r.val.(func(*Task)))
		nt.spawned = true
		k.prio = append(k.prio, 1+k.rng.Intn(len(k.prio)+1))
		k.probe("library_goroutine_started")
		k.logEvent(t, r.kind, "", int64(nt.ID))
	case KWGAdd:
		k.wgs[r.obj] += int(r.arg)
		k.logEvent(t, r.kind, name, int64(k.wgs[r.obj]))
	case KWGWait:
		k.logEvent(t, r.kind, name, 0)
	case KCondEnq:
		c := k.cond(r.obj)
		t.condTicket = c.next
		c.next++
		c.waiting = append(c.waiting, t.condTicket)
		k.logEvent(t, r.kind, name, int64(t.condTicket))
	case KCondWait:
		c := k.cond(r.obj)
		delete(c.signaled, t.condTicket)
		t.condTicket = 0
		k.logEvent(t, r.kind, name, 0)
	case KCondSignal:
		c := k.cond(r.obj)
		if len(c.waiting) > 0 {
			c.signaled[c.waiting[0]] = true
			c.waiting = c.waiting[1:]
		}
		k.logEvent(t, r.kind, name, int64(len(c.waiting)))
	case KCondBroadcast:
		c := k.cond(r.obj)
		for _, tk := range c.waiting {
			c.signaled[tk] = true
		}
		c.waiting = nil
		k.logEvent(t, r.kind, name, 0)
	default:
		k.logEvent(t, r.kind, name, r.arg)
	}
	return true, rep
}

func (k *Kernel) stamp(a *[]int, i, seq int) {
	for len(*a) <= i {
		*a = append(*a, -1)
	}
	(*a)[i] = seq
}

// Seq returns a[i] or -1.
func Seq(a []int, i int) int {
	if i < len(a) {
		return a[i]
	}
	return -1
}

func b2i(b bool) int64 {
	if b {
		return 1
	}
	return 0
}

func (k *Kernel) pool(r request) *poolState {
	ps := k.pools[r.obj]
	if ps == nil {
		ps = &poolState{name: k.objName(r)}
		k.pools[r.obj] = ps
	}
	return ps
}

func (k *Kernel) choosePool(t *Task, ps *poolState) int {
	n := len(ps.set)
	if rp := k.spec.Replay; rp != nil {
		if k.poolPos < len(rp.Pool) {
			idx := rp.Pool[k.poolPos]
			k.poolPos++
			if idx < n {
				if idx < -1 {
					idx = -1
				}
				return idx
			}
			k.out.Diverged = true
			return n - 1
		}
		k.poolPos++
		return n - 1 // lifo once the recording is exhausted (n==0 gives -1)
	}
	if n == 0 {
		return -1
	}
	switch k.spec.Pool {
	case "fresh":
		return -1
	case "lifo":
		return n - 1
	case "fifo":
		return 0
	case "steal":
		var cand []int
		for i, o := range ps.set {
			if o.by != t.ID {
				cand = append(cand, i)
			}
		}
		if len(cand) > 0 && !k.rng.Chance(1, 8) {
			return cand[k.rng.Intn(len(cand))]
		}
		return k.rng.Intn(n+1) - 1
	default: // adversarial
		if k.rng.Chance(1, 6) {
			return -1
		}
		return k.rng.Intn(n)
	}
}

func (k *Kernel) runnable() []*Task {
	var rs []*Task
	for _, t := range k.tasks {
		if k.grantable(t) {
			rs = append(rs, t)
		}
	}
	return rs
}

func (k *Kernel) chooseTask(rs []*Task) *Task {
	fallback := func() *Task {
		for _, t := range rs {
			if t == k.last {
				return t
			}
		}
		return rs[0]
	}
	if rp := k.spec.Replay; rp != nil {
		pos := k.schedPos
		k.schedPos++
		if pos < len(rp.Sched) {
			for _, t := range rs {
				if t.ID == rp.Sched[pos] {
					return t
				}
			}
			k.out.Diverged = true
		}
		return fallback()
	}
	if len(rs) == 1 {
		return rs[0]
	}
	switch k.spec.Sched.Kind {
	case "hold":
		// slow user code: a task that has entered a caller-supplied detector or Read stays
		// there as long as anybody else can run (callers pile up inside the callback)
		var free []*Task
		for _, t := range rs {
			if !t.hasPend || (t.pend.kind != KDetector && t.pend.kind != KReadRet) {
				free = append(free, t)
			}
		}
		if len(free) > 0 {
			return free[k.rng.Intn(len(free))]
		}
		return rs[k.rng.Intn(len(rs))]
	case "pct":
		if k.changeAt[k.step] && k.last != nil {
			k.lowPrio--
			k.prio[k.last.ID] = k.lowPrio
		}
		best := rs[0]
		for _, t := range rs[1:] {
			if k.prio[t.ID] > k.prio[best.ID] {
				best = t
			}
		}
		return best
	case "rtc":
		for _, t := range rs {
			if t == k.last {
				if k.rng.Intn(1000) >= k.spec.Sched.Preempt {
					return t
				}
				break
			}
		}
		return rs[k.rng.Intn(len(rs))]
	default:
		return rs[k.rng.Intn(len(rs))]
	}
}

// goroutineStates returns the scheduler state of every goroutine ("running",
// "chan receive", "select", ...), by goroutine id, from the runtime's own dump.
func goroutineStates() map[int64]string {
	m, _ := goroutineDump()
	return m
}

// goroutineDump returns states and the text of every goroutine's stack.
func goroutineDump() (map[int64]string, map[int64]string) {
	buf := make([]byte, 1<<16)
	for {
		n := runtime.Stack(buf, true)
		if n < len(buf) {
			buf = buf[:n]
			break
		}
		buf = make([]byte, 2*len(buf))
	}
	out := map[int64]string{}
	stacks := map[int64]string{}
	for _, blk := range bytes.Split(buf, []byte("\n\n")) {
		if !bytes.HasPrefix(blk, []byte("goroutine ")) {
			continue
		}
		line := blk
		if i := bytes.IndexByte(blk, '\n'); i >= 0 {
			line = blk[:i]
		}
		rest := line[len("goroutine "):]
		sp := bytes.IndexByte(rest, ' ')
		lb, rb := bytes.IndexByte(rest, '['), bytes.LastIndexByte(rest, ']')
		if sp < 0 || lb < 0 || rb < lb {
			continue
		}
		id, err := strconv.ParseInt(string(rest[:sp]), 10, 64)
		if err != nil {
			continue
		}
		st := string(rest[lb+1 : rb])
		if c := strings.IndexByte(st, ','); c >= 0 {
			st = st[:c] // "chan receive, 2 minutes"
		}
		out[id] = st
		if i := bytes.IndexByte(blk, '\n'); i >= 0 {
			stacks[id] = string(blk[i+1:])
		}
	}
	return out, stacks
}

// blockedOutside reports whether the goroutine is durably blocked on something
// that is not the kernel's own hand-off, and returns its stack.
func blockedOutside(gid int64) (bool, string) {
	states, stacks := goroutineDump()
	st := stacks[gid]
	if !blockedOnChannel(states[gid]) || strings.Contains(st, "verifsim/core.(*Task).call") {
		return false, st
	}
	return true, states[gid] + "\n" + st
}

func curGoid() int64 {
	var buf [64]byte
	n := runtime.Stack(buf[:], false)
	rest := buf[len("goroutine "):n]
	sp := bytes.IndexByte(rest, ' ')
	if sp < 0 {
		return -1
	}
	id, _ := strconv.ParseInt(string(rest[:sp]), 10, 64)
	return id
}

// durablyBlocked says whether a goroutine state means "waits for another
// goroutine's action" (as opposed to running, in a system call, asleep).
func durablyBlocked(state string) bool {
	switch {
	case strings.HasPrefix(state, "chan "), strings.HasPrefix(state, "select"), strings.HasPrefix(state, "semacquire"),
		strings.HasPrefix(state, "sync."):
		return true
	}
	return false
}

// blockedOnChannel is the narrower test used for the task holding the baton.
func blockedOnChannel(state string) bool {
	return strings.HasPrefix(state, "chan ") || strings.HasPrefix(state, "select")
}

// OutsideDetection switches the detection of tasks blocked on unmodelled
// primitives on. It is off unless the library under test contains channel
// operations (the prepare step knows): a library without them cannot block
// outside the model, and then nothing in a run depends on goroutine states.
var OutsideDetection = os.Getenv("VERIF_CHANOPS") == "1"

// byGoid maps goroutine ids to tasks (needed only for scheduling points reached
// by a task that is not the baton holder: one that came back from outside).
var byGoid sync.Map

// anyOutside is non-zero while some task of the running simulation is blocked
// outside the model; scheduling points then identify their task by goroutine.
var anyOutside atomic.Int32

// await waits for the next request of the task that was just resumed. Requests
// of other tasks can only come from tasks that were blocked outside the model and
// have reached a scheduling point again: they are noted. blocked=true: t itself
// is durably blocked on something the simulator does not model.
func (k *Kernel) await(t *Task) (r request, blocked bool) {
	idle := 0
	seen := ""
	for {
		select {
		case r = <-k.req:
			if r.t == t {
				return r, false
			}
			k.back(r)
		case <-k.tick.C:
			idle++
			if idle < 3 || !OutsideDetection {
				continue
			}
			is, where := blockedOutside(t.goid.Load())
			if !is {
				seen = ""
				continue
			}
			if where != seen {
				// blocked now; it counts only when the next look (a tick later) finds the very same stack
				seen = where
				continue
			}
			// make sure it is not merely about to hand us its request
			select {
			case r = <-k.req:
				if r.t == t {
					return r, false
				}
				k.back(r)
				seen = ""
				continue
			default:
			}
			t.blockedAt = where
			return request{}, true
		}
	}
}

func firstFrames(s string, n int) string {
	lines := strings.Split(s, "\n")
	if len(lines) > n {
		lines = lines[:n]
	}
	return strings.Join(lines, " | ")
}

// back notes the request of a task that had been blocked outside the model.
func (k *Kernel) back(r request) {
	u := r.t
	if u == nil || !u.outside {
		k.fail("harness", fmt.Sprintf("request (%s) from task %d, which does not hold the baton [last seen blocked at: %s]", r.kind, u.ID, firstFrames(u.blockedAt, 8)))
		return
	}
	u.outside = false
	k.probe("task_back_from_unmodelled_primitive")
	switch r.kind {
	case KFinish:
		u.finished = true
	case KPanic:
		u.finished = true
		<-u.fin
		k.fail("panic", u.panicMsg)
	default:
		u.pend, u.hasPend = r, true
	}
}

// settle waits until every task that is blocked outside the model is either
// still durably blocked or has handed in its next request: only then is the set
// of runnable tasks a fact and not a matter of timing.
func (k *Kernel) settle() {
	n := 0
	for _, u := range k.tasks {
		if u.outside {
			n++
		}
	}
	anyOutside.Store(int32(n))
	if n == 0 {
		return
	}
	for spins := 0; ; spins++ {
		drained := false
		for more := true; more; {
			select {
			case r := <-k.req:
				k.back(r)
				drained = true
			default:
				more = false
			}
		}
		states, stacks := goroutineDump()
		quiet := true
		for _, u := range k.tasks {
			if u.outside && !durablyBlocked(states[u.goid.Load()]) {
				quiet = false
			}
			_ = stacks
		}
		if quiet && !drained {
			// one more look at the request channel: a task parked there is "blocked" too
			select {
			case r := <-k.req:
				k.back(r)
				continue
			default:
			}
			break
		}
		if spins > 200000 {
			k.fail("harness", "tasks blocked outside the model do not settle")
			break
		}
		time.Sleep(20 * time.Microsecond)
	}
	n = 0
	for _, u := range k.tasks {
		if u.outside {
			n++
		}
	}
	anyOutside.Store(int32(n))
}

// UserPanic marks panic values raised by code the harness supplied to the
// library on purpose (a detector with a bug).
type UserPanic interface{ VerifUserPanic() }

// newTask creates a parked task whose first request (start) is pending.
// Kernel goroutine only.
func (k *Kernel) newTask(body func(t *Task)) *Task {
	t := &Task{ID: len(k.tasks), k: k, resume: make(chan reply), fin: make(chan struct{})}
	t.pend, t.hasPend = request{t: t, kind: KStart}, true
	k.tasks = append(k.tasks, t)
	go func() {
		gid := curGoid()
		t.goid.Store(gid)
		byGoid.Store(gid, t)
		defer byGoid.Delete(gid)
		raceDisable()
		<-t.resume
		raceEnable()
		kind := KFinish
		defer func() {
			if r := recover(); r != nil {
				t.panicMsg = fmt.Sprintf("%v\n%s", r, debug.Stack())
				if _, ok := r.(UserPanic); ok {
					t.panicMsg = "user-supplied code panicked: " + t.panicMsg
				}
				kind = KPanic
			}
			raceDisable()
			k.req <- request{t: t, kind: kind}
			raceEnable()
			close(t.fin)
		}()
		body(t)
	}()
	return t
}

// Run executes one simulation to completion (or failure).
func (k *Kernel) Run(spec *RunSpec) *Outcome {
	n := len(spec.Bodies)
	out := &Outcome{Probes: map[string]int{}, Invoke: make([][]int, n), Return: make([][]int, n)}
	k.spec, k.out = spec, out
	k.rng = NewRand(spec.Seed)
	k.locks = map[any]*lockState{}
	k.pools = map[any]*poolState{}
	k.wgs = map[any]int{}
	k.conds = map[any]*condState{}
	k.names = map[any]string{}
	k.nameCount = map[string]int{}
	k.tasks = nil
	k.last, k.step, k.schedPos, k.poolPos = nil, 0, 0, 0
	k.hash, k.ssig, k.csig = 0xcbf29ce484222325, 0xcbf29ce484222325, 0xcbf29ce484222325
	if spec.MaxSteps == 0 {
		spec.MaxSteps = 20000
	}
	// PCT set-up
	k.prio = make([]int, n)
	for i, p := range perm(k.rng, n) {
		k.prio[i] = p + 1
	}
	k.lowPrio = 0
	k.changeAt = map[int]bool{}
	if spec.Sched.Kind == "pct" {
		h := spec.Sched.Horizon
		if h <= 0 {
			h = 300
		}
		for i := 0; i < spec.Sched.D; i++ {
			k.changeAt[1+k.rng.Intn(h)] = true
		}
	}
	WaitOutstanding()
	simActive.Store(true)
	defer simActive.Store(false)
	races0 := RaceErrors()

	for i := 0; i < n; i++ {
		k.newTask(spec.Bodies[i])
	}

	graceFrom := 0
	started := time.Now()
	for {
		Tick()
		rs := k.runnable()
		if len(rs) == 0 {
			unfinished := 0
			var blocked []string
			for _, t := range k.tasks {
				if !t.finished {
					if !t.spawned {
						unfinished++
					}
					if t.outside {
						blocked = append(blocked, fmt.Sprintf("t%d:blocked on a channel or another primitive the simulator does not model [%s]", t.ID, firstFrames(t.blockedAt, 6)))
					} else {
						blocked = append(blocked, fmt.Sprintf("t%d:%s(%s)", t.ID, t.pend.kind, k.objName(t.pend)))
					}
				}
			}
			// goroutines the library started itself may legitimately wait for ever (a
			// worker parked on a condition variable); only callers that cannot return count
			anyOut := false
			for _, t := range k.tasks {
				anyOut = anyOut || (!t.finished && t.outside)
			}
			if unfinished > 0 && anyOut {
				// A task sits on a channel (or another primitive the simulator does not
				// model) and nobody is left to run. Whether that is a deadlock of the
				// library or a wake-up the simulator failed to see cannot be told from
				// here: an inconclusive run, never a verdict.
				sort.Strings(blocked)
				k.fail("budget", fmt.Sprintf("no runnable task while some are blocked outside the model: %v", blocked))
			} else if unfinished > 0 {
				sort.Strings(blocked)
				k.fail("deadlock", fmt.Sprintf("no runnable task; blocked: %v", blocked))
			}
			break
		}
		if k.step >= spec.MaxSteps {
			k.fail("budget", fmt.Sprintf("step budget %d exhausted", spec.MaxSteps))
			break
		}
		if k.step%4096 == 0 && time.Since(started) > 4*time.Minute {
			// an inconclusive run, not a verdict: no simulated run is meant to take this long
			k.fail("budget", fmt.Sprintf("wall-clock budget exhausted after %d steps", k.step))
			break
		}
		// every caller has returned and only goroutines of the library's own keep
		// going (a background worker): give them a while, then end the run
		callersDone := true
		for _, t := range k.tasks {
			callersDone = callersDone && (t.finished || t.spawned)
		}
		if callersDone {
			if graceFrom == 0 {
				graceFrom = k.step
			}
			if k.step-graceFrom > 2000 {
				k.probe("library_goroutine_outlived_the_run")
				break
			}
		}
		if out.Class != "" {
			break
		}
		t := k.chooseTask(rs)
		out.Decisions.Sched = append(out.Decisions.Sched, t.ID)
		if k.last != nil && k.last != t && !k.last.finished {
			out.Switches++
		}
		k.last = t
		k.step++
		resume, rep := k.apply(t)
		if out.Class != "" {
			break
		}
		if !resume {
			continue
		}
		t.hasPend = false
		cur.Store(t)
		raceDisable()
		t.resume <- rep
		r, blocked := k.await(t)
		raceEnable()
		cur.Store(nil)
		if blocked {
			// The task blocks, for good, on something the simulator does not model (a
			// channel operation): it is out of the game until another task's action lets
			// it reach a scheduling point again.
			t.outside = true
			k.probe("task_blocked_on_unmodelled_primitive")
			k.logEvent(t, KYield, "blocked-outside", 0)
			k.settle()
			continue
		}
		k.settle()
		if r.t != t {
			k.fail("harness", fmt.Sprintf("request from task %d while task %d holds the baton", r.t.ID, t.ID))
			break
		}
		switch r.kind {
		case KFinish:
			t.finished = true
			k.step++
			k.logEvent(t, KFinish, "", 0)
		case KPanic:
			t.finished = true
			<-t.fin
			k.fail("panic", t.panicMsg)
		default:
			t.pend, t.hasPend = r, true
		}
	}

	out.Steps = k.step
	out.LogHash, out.SchedSig, out.ConflictSig = k.hash, k.ssig, k.csig
	all := true
	for _, t := range k.tasks {
		if !t.finished {
			all = false
		}
	}
	if all {
		for _, t := range k.tasks {
			<-t.fin // join: a real happens-before edge, tasks -> kernel
		}
	} else {
		out.Tainted = true
	}
	out.Races = RaceErrors() - races0
	anyOutside.Store(0)
	return out
}

func perm(r *Rand, n int) []int {
	p := make([]int, n)
	for i := range p {
		p[i] = i
	}
	for i := n - 1; i > 0; i-- {
		j := r.Intn(i + 1)
		p[i], p[j] = p[j], p[i]
	}
	return p
}
