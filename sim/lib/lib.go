// Package lib adapts the public API of the library under test for the
// simulator: observation of results, the pristine-tree baseline memo B and
// tree/limit restoration between runs.
package lib

import (
	"bufio"
	"encoding/binary"
	"encoding/json"
	"fmt"
	"io"
	"os"
	"os/exec"
	"strings"
	"sync/atomic"
	"time"

	"github.com/gabriel-vasile/mimetype"
	"github.com/gabriel-vasile/mimetype/internal/verifsim/core"
)

// Node is one element of a result's hierarchy.
type Node struct {
	Str string `json:"s"`
	Ext string `json:"e"`
}

// Res is everything observable about a *MIME value through its accessors.
type Res struct {
	Nil   bool   `json:"nil,omitempty"`
	Chain []Node `json:"chain,omitempty"` // [0] is the value itself, last is the root
	Loop  bool   `json:"loop,omitempty"`  // the Parent chain did not end within 64 steps
	// BareLeaf (expectations only): the value's own string may carry a charset
	// parameter the model does not predict; compare it without parameters.
	BareLeaf bool `json:"-"`
}

// BareKey is Key with the parameters of the value's own string removed.
func (r Res) BareKey() string {
	if r.Nil || len(r.Chain) == 0 {
		return r.Key()
	}
	c := Res{Chain: append([]Node{{Str: Bare(r.Chain[0].Str), Ext: r.Chain[0].Ext}}, r.Chain[1:]...), Loop: r.Loop}
	return c.Key()
}

// CharsetNames are the types the library attaches a charset parameter to.
var CharsetNames = []string{"text/plain", "text/html", "text/xml"}

// IsCharsetName reports whether a type is one of them.
func IsCharsetName(s string) bool {
	for _, n := range CharsetNames {
		if n == s {
			return true
		}
	}
	return false
}

// Observe walks a value with the public accessors only.
func Observe(m *mimetype.MIME) Res {
	if m == nil {
		return Res{Nil: true}
	}
	var r Res
	for p := m; p != nil; p = p.Parent() {
		if len(r.Chain) >= 64 {
			r.Loop = true
			break
		}
		r.Chain = append(r.Chain, Node{p.String(), p.Extension()})
	}
	return r
}

// Key renders a result compactly; equal keys mean equal observations.
func (r Res) Key() string {
	if r.Nil {
		return "<nil>"
	}
	var b strings.Builder
	for i, n := range r.Chain {
		if i > 0 {
			b.WriteString(" < ")
		}
		b.WriteString(n.Str)
		b.WriteString("|")
		b.WriteString(n.Ext)
	}
	if r.Loop {
		b.WriteString(" < ...")
	}
	return b.String()
}

// Leaf returns the value's own string ("" for nil).
func (r Res) Leaf() string {
	if r.Nil || len(r.Chain) == 0 {
		return ""
	}
	return r.Chain[0].Str
}

// Bare strips parameters from a media type string.
func Bare(s string) string {
	if i := strings.IndexByte(s, ';'); i >= 0 {
		return strings.TrimSpace(s[:i])
	}
	return s
}

// DefaultLimit is the library's documented default header size; the harness
// puts the limit back to it between runs through the public SetLimit.
const DefaultLimit = 3072

var (
	pristine *mimetype.VerifTree
	memo     = map[string]Res{}
	lookups  = map[string]Res{}
	// Stats
	MemoHits, MemoMisses int
)

// Init records the pristine tree. Call once, before any Extend.
func Init() {
	pristine = mimetype.VerifSnapshotTree()
	mimetype.SetLimit(DefaultLimit)
}

// The reference process. Baseline answers (B, LB) must come from a tree no
// Extend ever touched. Inside a worker that executes many runs the tree is put
// back between runs by writing to the library's internals, which is only as
// good as our knowledge of where the library keeps its state; so the baseline
// is not computed in the worker at all but in a child process of the same
// binary that never registers anything.
type refProc struct {
	cmd *exec.Cmd
	in  io.WriteCloser
	out *bufio.Reader
}

var ref *refProc

// StartReference launches the reference process (the running binary with --reference).
func StartReference() error {
	cmd := exec.Command(os.Args[0], "--reference")
	cmd.Stderr = os.Stderr
	in, err := cmd.StdinPipe()
	if err != nil {
		return err
	}
	out, err := cmd.StdoutPipe()
	if err != nil {
		return err
	}
	if err := cmd.Start(); err != nil {
		return err
	}
	ref = &refProc{cmd: cmd, in: in, out: bufio.NewReaderSize(out, 1<<16)}
	return nil
}

func (r *refProc) ask(op byte, limit uint32, payload []byte) Res {
	var hdr [9]byte
	hdr[0] = op
	binary.LittleEndian.PutUint32(hdr[1:], limit)
	binary.LittleEndian.PutUint32(hdr[5:], uint32(len(payload)))
	if _, err := r.in.Write(hdr[:]); err != nil {
		panic("reference process: " + err.Error())
	}
	if _, err := r.in.Write(payload); err != nil {
		panic("reference process: " + err.Error())
	}
	line, err := r.out.ReadBytes('\n')
	if err != nil {
		panic("reference process: " + err.Error())
	}
	var res Res
	if err := json.Unmarshal(line, &res); err != nil {
		panic("reference process: " + err.Error())
	}
	return res
}

// ServeReference is the main loop of the reference process.
func ServeReference() {
	in := bufio.NewReaderSize(os.Stdin, 1<<16)
	out := bufio.NewWriter(os.Stdout)
	enc := json.NewEncoder(out)
	for {
		var hdr [9]byte
		if _, err := io.ReadFull(in, hdr[:]); err != nil {
			return
		}
		limit := binary.LittleEndian.Uint32(hdr[1:])
		payload := make([]byte, binary.LittleEndian.Uint32(hdr[5:]))
		if _, err := io.ReadFull(in, payload); err != nil {
			return
		}
		var res Res
		refBusy.Store(true)
		switch hdr[0] {
		case 'B':
			mimetype.SetLimit(limit)
			res = Observe(mimetype.Detect(payload))
			mimetype.SetLimit(DefaultLimit)
		case 'L':
			res = Observe(mimetype.Lookup(string(payload)))
		}
		refBusy.Store(false)
		enc.Encode(res)
		out.Flush()
	}
}

var refBusy atomic.Bool

// ReferenceWatchdog exits the reference process when one request takes longer
// than d; waiting for the next request (however long the worker is busy with a
// simulation) is not a hang.
func ReferenceWatchdog(d time.Duration) {
	go func() {
		var since time.Time
		for {
			time.Sleep(d / 8)
			if !refBusy.Load() {
				since = time.Time{}
				continue
			}
			if since.IsZero() {
				since = time.Now()
			} else if time.Since(since) > d {
				fmt.Fprintln(os.Stderr, "HARNESS watchdog: the reference process is stuck in one evaluation")
				os.Exit(2)
			}
		}
	}()
}

// Reset restores the pristine tree and the default limit. Kernel goroutine only,
// with no simulation running.
func Reset() {
	pristine.Restore()
	mimetype.SetLimit(DefaultLimit)
}

// TreeSize is the number of nodes in the pristine tree.
func TreeSize() int { return pristine.Len() }

// Header returns the part of x a detection at limit l examines.
func Header(x []byte, l uint32) []byte {
	if l > 0 && len(x) > int(l) {
		return x[:l]
	}
	return x
}

func memoKey(h []byte, l uint32) string {
	a, b := uint64(0xcbf29ce484222325), uint64(0x84222325cbf29ce4)
	for _, c := range h {
		a = (a ^ uint64(c)) * 0x100000001b3
		b = (b + uint64(c) + 1) * 0x9e3779b97f4a7c15
		b ^= b >> 29
	}
	return fmt.Sprintf("%x.%x.%d.%d", a, b, len(h), l)
}

// B is the baseline: what the pristine tree answers for header x[:l] at limit
// l from a fresh pool with no history. The tree must be pristine when it is
// called (i.e. after Reset) and no simulation may be running.
func B(x []byte, l uint32) Res {
	h := Header(x, l)
	k := memoKey(h, l)
	if r, ok := memo[k]; ok {
		MemoHits++
		return r
	}
	MemoMisses++
	core.Tick()
	var r Res
	if ref != nil {
		r = ref.ask('B', l, h)
	} else {
		hc := append([]byte(nil), h...)
		mimetype.SetLimit(l)
		r = Observe(mimetype.Detect(hc))
		mimetype.SetLimit(DefaultLimit)
	}
	core.Tick()
	if len(memo) > 200000 {
		memo = map[string]Res{}
	}
	memo[k] = r
	return r
}

// LB is the pristine answer of Lookup(name).
func LB(name string) Res {
	if r, ok := lookups[name]; ok {
		return r
	}
	var r Res
	if ref != nil {
		r = ref.ask('L', 0, []byte(name))
	} else {
		r = Observe(mimetype.Lookup(name))
	}
	lookups[name] = r
	return r
}
